package main

import (
	"os"

	"verif/core"
	_ "verif/props"
)

func main() { os.Exit(core.Main(os.Args[1:])) }
