// Package core is the shared driver of all checks: work-unit sharding over worker processes,
// report merging, violation re-validation, known-finding attribution, evidence and replay files.
package core

import (
	"encoding/json"
	"fmt"
	"hash/fnv"
	"os"
	"path/filepath"
	"sort"
	"strconv"
	"strings"
	"time"
)

// Case is one explored case in replayable form: a property-specific JSON document.
type Case = json.RawMessage

// Outcome of checking one case on the real implementation.
type Outcome struct {
	OK    bool   // property held on this case
	Key   string // root-cause grouping key of a failure (short)
	Desc  string // human description: expected vs actual
	Known string // id of the known finding this failure is attributed to ("" = none)
}

// Violation is a failing case.
type Violation struct {
	Key   string `json:"key"`
	Desc  string `json:"desc"`
	Known string `json:"known,omitempty"`
	Case  Case   `json:"case"`
}

// Prop describes one property check.
type Prop struct {
	ID          string
	Level       string // model_checking | fault_enumeration
	Rule        string
	Assumptions []string
	// Units lists the work units for a tier (names only; index is the handle).
	Units func(tier string) []string
	// Run explores one unit, recording into ctx.
	Run func(ctx *Ctx, unit int)
	// Check re-executes one recorded case (used for 5x re-validation and replay).
	Check func(c Case) Outcome
	// CrashIsViolation: a worker crash while running a unit is itself a violation (C15, C18).
	CrashIsViolation bool
	// NeedsInstr: build with the instrumented overlay (vsched hooks active).
	NeedsInstr bool
}

var Registry = map[string]*Prop{}

func Register(p *Prop) { Registry[p.ID] = p }

// Report is what one worker accumulates; reports are merged by the coordinator.
type Report struct {
	Evals       int64             `json:"evals"`
	Transitions int64             `json:"transitions"`
	Traces      int64             `json:"traces"`
	States      map[uint64]bool   `json:"-"`
	Nontrivial  map[uint64]bool   `json:"-"`
	StateList   []uint64          `json:"states"`
	NontrivList []uint64          `json:"nontrivial"`
	Counters    map[string]int64  `json:"counters"`
	Samples     []interface{}     `json:"samples"`
	Violations  []Violation       `json:"violations"`
	NViolations int64             `json:"nviolations"`
	KnownHits   map[string]int64  `json:"known_hits"`
	KnownEx     map[string]string `json:"known_ex"`
	Incomplete  []string          `json:"incomplete"` // units cut by the deadline
	Notes       []string          `json:"notes"`
	perKey      map[string]int
	MaxInfo     map[string]float64 `json:"maxinfo"`
	// states that are distinct by construction and therefore counted, not hashed
	ExtraStates     int64 `json:"extra_states"`
	ExtraNontrivial int64 `json:"extra_nontrivial"`
}

func NewReport() *Report {
	return &Report{States: map[uint64]bool{}, Nontrivial: map[uint64]bool{}, Counters: map[string]int64{},
		KnownHits: map[string]int64{}, KnownEx: map[string]string{}, perKey: map[string]int{}, MaxInfo: map[string]float64{}}
}

// Ctx is handed to Prop.Run.
type Ctx struct {
	Tier     string
	Seed     int64
	Deadline time.Time
	R        *Report
	Prop     *Prop
	unit     string
}

func (c *Ctx) Thorough() bool { return c.Tier == "thorough" }

// Expired reports whether the time budget is used up; Run must then stop and call Cut.
func (c *Ctx) Expired() bool { return time.Now().After(c.Deadline) }

// Cut records that the current unit was not completed.
func (c *Ctx) Cut(what string) {
	c.R.Incomplete = append(c.R.Incomplete, c.unit+": "+what)
}

func Hash(s string) uint64 {
	h := fnv.New64a()
	h.Write([]byte(s))
	return h.Sum64()
}

// State records a distinct explored state (canonical input, model state...). Returns true if new
// within this worker.
func (c *Ctx) State(key string, nontrivial bool) bool {
	h := Hash(key)
	if nontrivial {
		c.R.Nontrivial[h] = true
	}
	if c.R.States[h] {
		return false
	}
	c.R.States[h] = true
	return true
}

// CountState records a state that is distinct by construction (no hash kept).
func (c *Ctx) CountState(nontrivial bool) {
	c.R.ExtraStates++
	if nontrivial {
		c.R.ExtraNontrivial++
	}
}

func (c *Ctx) Count(name string, n int64) { c.R.Counters[name] += n }

func (c *Ctx) Max(name string, v float64) {
	if v > c.R.MaxInfo[name] {
		c.R.MaxInfo[name] = v
	}
}

func (c *Ctx) Sample(v interface{}) {
	if len(c.R.Samples) < 3 {
		c.R.Samples = append(c.R.Samples, v)
	}
}

// Eval records one execution on the implementation with its outcome.
func (c *Ctx) Eval(cs interface{}, o Outcome) {
	c.R.Evals++
	c.R.Traces++
	if o.OK {
		return
	}
	c.Fail(cs, o)
}

// Fail records a failing case (without counting an evaluation).
func (c *Ctx) Fail(cs interface{}, o Outcome) {
	if d := os.Getenv("VERIF_DUMP"); d != "" { // debugging aid: dump every failing case
		if f, err := os.OpenFile(d, os.O_APPEND|os.O_CREATE|os.O_WRONLY, 0o644); err == nil {
			b, _ := json.Marshal(map[string]interface{}{"case": cs, "key": o.Key, "known": o.Known, "desc": o.Desc})
			f.Write(append(b, '\n'))
			f.Close()
		}
	}
	if o.Known != "" {
		for _, id := range strings.Split(o.Known, "+") {
			c.R.KnownHits[id]++
			if _, ok := c.R.KnownEx[id]; !ok {
				c.R.KnownEx[id] = o.Desc
			}
		}
		return
	}
	c.R.NViolations++
	if c.R.perKey[o.Key] >= 2 || len(c.R.Violations) >= 40 {
		return
	}
	c.R.perKey[o.Key]++
	raw, err := json.Marshal(cs)
	if err != nil {
		panic(err)
	}
	c.R.Violations = append(c.R.Violations, Violation{Key: o.Key, Desc: o.Desc, Case: raw})
}

func (r *Report) finish() {
	for h := range r.States {
		r.StateList = append(r.StateList, h)
	}
	for h := range r.Nontrivial {
		r.NontrivList = append(r.NontrivList, h)
	}
}

func (r *Report) merge(o *Report) {
	r.Evals += o.Evals
	r.Transitions += o.Transitions
	r.Traces += o.Traces
	for _, h := range o.StateList {
		r.States[h] = true
	}
	for _, h := range o.NontrivList {
		r.Nontrivial[h] = true
	}
	for k, v := range o.Counters {
		r.Counters[k] += v
	}
	for k, v := range o.MaxInfo {
		if v > r.MaxInfo[k] {
			r.MaxInfo[k] = v
		}
	}
	for _, s := range o.Samples {
		if len(r.Samples) < 5 {
			r.Samples = append(r.Samples, s)
		}
	}
	r.ExtraStates += o.ExtraStates
	r.ExtraNontrivial += o.ExtraNontrivial
	r.NViolations += o.NViolations
	for _, v := range o.Violations {
		if r.perKey[v.Key] >= 2 || len(r.Violations) >= 40 {
			continue
		}
		r.perKey[v.Key]++
		r.Violations = append(r.Violations, v)
	}
	for k, v := range o.KnownHits {
		r.KnownHits[k] += v
		if _, ok := r.KnownEx[k]; !ok {
			r.KnownEx[k] = o.KnownEx[k]
		}
	}
	r.Incomplete = append(r.Incomplete, o.Incomplete...)
	r.Notes = append(r.Notes, o.Notes...)
}

// ---------------------------------------------------------------------------------------------
// known findings

type Finding struct {
	Property string `json:"property"`
	ID       string `json:"id"`
	Status   string `json:"status"` // "known" | "fixed"
	Commit   string `json:"commit,omitempty"`
	What     string `json:"what"`
	Example  string `json:"example,omitempty"`
}

func LoadFindings(path string) ([]Finding, error) {
	b, err := os.ReadFile(path)
	if err != nil {
		if os.IsNotExist(err) {
			return nil, nil
		}
		return nil, err
	}
	var fs []Finding
	if err := json.Unmarshal(b, &fs); err != nil {
		return nil, fmt.Errorf("known_findings.json: %w", err)
	}
	return fs, nil
}

// KnownActive is the set of finding ids (status "known") of the running property; check code
// consults it through IsKnown so that an id not listed in the file never suppresses anything.
var KnownActive = map[string]bool{}

func IsKnown(id string) bool { return KnownActive[id] }

// Known findings whose signature describes a class of deviations are additionally pinned to the
// individual inputs on which the finding was observed when the list was made: the file
// known_inputs/<property>/<finding>.txt holds one 64-bit hash (hex) per input. KnownInput reports whether
// the input is listed; a finding without such a file is not pinned. The lists are written only by
// tools/mkknowninputs.sh (which runs the checks with VERIF_RECORD_KNOWN set), never by a check run.
var knownInputs = map[string]map[uint64]bool{}

func inputHash(s string) uint64 {
	h := fnv.New64a()
	h.Write([]byte(s))
	return h.Sum64()
}

func KnownInput(prop, id, input string) bool {
	h := inputHash(input)
	if dir := os.Getenv("VERIF_RECORD_KNOWN"); dir != "" {
		os.MkdirAll(filepath.Join(dir, prop), 0o755)
		if f, err := os.OpenFile(filepath.Join(dir, prop, fmt.Sprintf("%s.%d.part", id, os.Getpid())), os.O_APPEND|os.O_CREATE|os.O_WRONLY, 0o644); err == nil {
			fmt.Fprintf(f, "%016x\n", h)
			f.Close()
		}
		return true
	}
	key := prop + "/" + id
	set, loaded := knownInputs[key]
	if !loaded {
		if b, err := os.ReadFile(filepath.Join(Root(), "known_inputs", prop, id+".txt")); err == nil {
			set = map[uint64]bool{}
			for _, l := range strings.Fields(string(b)) {
				if v, err := strconv.ParseUint(l, 16, 64); err == nil {
					set[v] = true
				}
			}
		}
		knownInputs[key] = set
	}
	return set == nil || set[h]
}

func sortedKeys(m map[string]int64) []string {
	var ks []string
	for k := range m {
		ks = append(ks, k)
	}
	sort.Strings(ks)
	return ks
}
