package core

import (
	"bufio"
	"encoding/json"
	"fmt"
	"os"
	"os/exec"
	"path/filepath"
	"runtime"
	"runtime/debug"
	"sort"
	"strconv"
	"strings"
	"sync"
	"time"
)

func Root() string {
	if r := os.Getenv("VERIF_ROOT"); r != "" {
		return r
	}
	return "/verif"
}

func seed() int64 {
	s, _ := strconv.ParseInt(os.Getenv("VERIF_SEED"), 10, 64)
	return s
}

func budget(tier string) time.Duration {
	if v := os.Getenv("VERIF_BUDGET_S"); v != "" {
		if n, err := strconv.Atoi(v); err == nil {
			return time.Duration(n) * time.Second
		}
	}
	if tier == "thorough" {
		return 20 * time.Minute
	}
	return 150 * time.Second
}

// ExtraCommands are additional sub-commands registered by property files.
var ExtraCommands = map[string]func() int{}

// SelfCheck is installed by the props package.
var SelfCheck func() int

// Main is the entry point of vcheck.
func Main(args []string) int {
	if len(args) < 1 {
		fmt.Fprintln(os.Stderr, "usage: vcheck <ID> quick|thorough | replay <file> | worker ... | list")
		return 2
	}
	if f, ok := ExtraCommands[args[0]]; ok {
		return f()
	}
	switch args[0] {
	case "list":
		var ids []string
		for id := range Registry {
			ids = append(ids, id)
		}
		sort.Strings(ids)
		for _, id := range ids {
			fmt.Println(id)
		}
		return 0
	case "selfcheck":
		if SelfCheck == nil {
			return 0
		}
		return SelfCheck()
	case "worker":
		return workerMain(args[1:])
	case "replay":
		if len(args) < 2 {
			return 2
		}
		return replayMain(args[1])
	case "units":
		p := Registry[args[1]]
		for i, u := range p.Units(args[2]) {
			fmt.Println(i, u)
		}
		return 0
	}
	p, ok := Registry[args[0]]
	if !ok {
		fmt.Fprintf(os.Stderr, "unknown property %s\n", args[0])
		return 2
	}
	tier := "quick"
	if len(args) > 1 {
		tier = args[1]
	}
	if t := os.Getenv("VERIF_TIER"); t != "" && len(args) < 2 {
		tier = t
	}
	return coordinate(p, tier)
}

// KnownOf returns the ids of the findings listed with status "known" for another property (C02 reuses
// C01's layout signatures to recognise layouts that are C01's business).
func KnownOf(prop string) []string {
	fs, err := LoadFindings(filepath.Join(Root(), "known_findings.json"))
	if err != nil {
		return nil
	}
	var out []string
	for _, f := range fs {
		if f.Property == prop && f.Status == "known" {
			out = append(out, f.ID)
		}
	}
	return out
}

func loadKnown(p *Prop) []Finding {
	fs, err := LoadFindings(filepath.Join(Root(), "known_findings.json"))
	if err != nil {
		fmt.Fprintln(os.Stderr, "engine error:", err)
		os.Exit(2)
	}
	var mine []Finding
	for _, f := range fs {
		if f.Property == p.ID && f.Status == "known" {
			KnownActive[f.ID] = true
			mine = append(mine, f)
		}
	}
	return mine
}

func coordinate(p *Prop, tier string) int {
	start := time.Now()
	known := loadKnown(p)
	units := p.Units(tier)
	deadline := start.Add(budget(tier))
	nw := runtime.NumCPU()
	if v := os.Getenv("VERIF_WORKERS"); v != "" {
		if n, err := strconv.Atoi(v); err == nil && n > 0 {
			nw = n
		}
	}
	if nw > len(units) {
		nw = len(units)
	}
	if nw < 1 {
		nw = 1
	}
	// shard order: deterministic, permuted by seed only
	order := make([]int, len(units))
	for i := range order {
		order[i] = i
	}
	if s := seed(); s != 0 {
		x := uint64(s)*2862933555777941757 + 3037000493
		for i := len(order) - 1; i > 0; i-- {
			x = x*6364136223846793005 + 1442695040888963407
			j := int((x >> 33) % uint64(i+1))
			order[i], order[j] = order[j], order[i]
		}
	}
	q := &queue{items: order}

	tmp, err := os.MkdirTemp("", "vcheck-"+p.ID+"-")
	if err != nil {
		fmt.Fprintln(os.Stderr, "engine error:", err)
		return 2
	}
	defer os.RemoveAll(tmp)
	self, _ := os.Executable()

	total := NewReport()
	var mu sync.Mutex
	var crashed []string
	crashLogs := map[string]string{}
	var engineErr error
	var wg sync.WaitGroup
	for w := 0; w < nw; w++ {
		wg.Add(1)
		go func(w int) {
			defer wg.Done()
			gen := 0
			for {
				u, ok := q.pop()
				if !ok {
					return
				}
				// start a child and feed it units until the queue is empty or it dies
				gen++
				out := filepath.Join(tmp, fmt.Sprintf("w%d-%d.json", w, gen))
				cmd := exec.Command(self, "worker", p.ID, tier, out, strconv.FormatInt(deadline.UnixNano(), 10))
				cmd.Env = append(os.Environ(), "GOMAXPROCS=2")
				stdin, _ := cmd.StdinPipe()
				stdout, _ := cmd.StdoutPipe()
				var stderr strings.Builder
				cmd.Stderr = &limitedWriter{w: &stderr, n: 1 << 16}
				if err := cmd.Start(); err != nil {
					mu.Lock()
					engineErr = err
					mu.Unlock()
					return
				}
				rd := bufio.NewReader(stdout)
				cur := u
				var completed []int
				died := false
				for {
					fmt.Fprintf(stdin, "%d\n", cur)
					line, err := rd.ReadString('\n')
					if err != nil || strings.TrimSpace(line) != "done" {
						died = true
						break
					}
					completed = append(completed, cur)
					next, ok := q.pop()
					if !ok {
						break
					}
					cur = next
				}
				stdin.Close()
				werr := cmd.Wait()
				if died || werr != nil {
					mu.Lock()
					if died {
						crashed = append(crashed, units[cur])
						crashLogs[units[cur]] = tail(stderr.String(), 3000)
					} else {
						engineErr = fmt.Errorf("worker exit: %v: %s", werr, tail(stderr.String(), 2000))
					}
					mu.Unlock()
					// the report of this child is lost: its completed units go back to the queue
					if died {
						q.push(completed)
					}
					continue
				}
				b, err := os.ReadFile(out)
				var rep Report
				if err == nil {
					err = json.Unmarshal(b, &rep)
				}
				mu.Lock()
				if err != nil {
					engineErr = fmt.Errorf("worker report: %w", err)
				} else {
					total.merge(&rep)
				}
				mu.Unlock()
				os.Remove(out)
			}
		}(w)
	}
	wg.Wait()
	if engineErr != nil {
		fmt.Fprintln(os.Stderr, "engine error:", engineErr)
		return 2
	}

	// classify crashes
	exit := 0
	if old, _ := filepath.Glob(filepath.Join(Root(), "replays", p.ID+"-*.json")); len(old) > 0 {
		for _, f := range old {
			os.Remove(f)
		}
	}
	var lines []string
	os.MkdirAll(filepath.Join(Root(), "replays"), 0o755)
	if len(crashed) > 0 {
		sort.Strings(crashed)
		if !p.CrashIsViolation {
			for _, u := range crashed {
				fmt.Fprintf(os.Stderr, "engine error: worker died on unit %s\n%s\n", u, crashLogs[u])
			}
			return 2
		}
		for _, u := range crashed {
			raw, _ := json.Marshal(map[string]string{"crash_unit": u, "tier": tier})
			v := Violation{Key: "worker-crash:" + u, Desc: "worker process died (fatal error / stack overflow / out of memory) while exploring unit " + u + ":\n" + crashLogs[u], Case: raw}
			total.NViolations++
			total.Violations = append(total.Violations, v)
		}
	}

	// re-validate each recorded violation 5x in this process; it must reproduce identically.
	var confirmed []Violation
	for _, v := range total.Violations {
		if strings.HasPrefix(v.Key, "worker-crash:") {
			confirmed = append(confirmed, v)
			continue
		}
		okCount := 0
		var first Outcome
		diverged := false
		for i := 0; i < 5; i++ {
			o := safeCheck(p, v.Case)
			if i == 0 {
				first = o
			} else if o.OK != first.OK || o.Key != first.Key {
				diverged = true
			}
			if !o.OK {
				okCount++
			}
		}
		tries := 5
		if okCount == 0 {
			// not once in five: before calling it an engine error, try harder (a subject whose behaviour
			// depends on an uncontrolled map order may fail only now and then)
			for i := 0; i < 20; i++ {
				tries++
				if o := safeCheck(p, v.Case); !o.OK {
					okCount++
					diverged = true
				}
			}
		}
		if okCount == 0 {
			fmt.Fprintf(os.Stderr, "engine error: violation %q did not reproduce at all (0/%d re-executions failing)\n", v.Key, tries)
			return 2
		}
		if diverged || okCount != tries || first.Key != v.Key {
			// The subject itself is nondeterministic (uncontrolled map iteration order inside the library):
			// the failure was observed and observed again, so it is reported, marked as such.
			v.Desc = fmt.Sprintf("[nondeterministic: failed in the exploration and in %d of %d re-executions]\n%s", okCount, tries, v.Desc)
			confirmed = append(confirmed, v)
			continue
		}
		if first.Known != "" {
			for _, id := range strings.Split(first.Known, "+") {
				total.KnownHits[id]++
			}
			continue
		}
		confirmed = append(confirmed, v)
	}
	sort.Slice(confirmed, func(i, j int) bool { return confirmed[i].Key < confirmed[j].Key })
	seenKey := map[string]bool{}
	for _, v := range confirmed {
		if seenKey[v.Key] {
			continue
		}
		seenKey[v.Key] = true
		name := fmt.Sprintf("%s-%016x.json", p.ID, Hash(v.Key+string(v.Case)))
		path := filepath.Join(Root(), "replays", name)
		doc := map[string]interface{}{"property": p.ID, "key": v.Key, "desc": v.Desc, "case": v.Case, "tier": tier}
		b, _ := json.MarshalIndent(doc, "", " ")
		if err := os.WriteFile(path, b, 0o644); err != nil {
			fmt.Fprintln(os.Stderr, "engine error:", err)
			return 2
		}
		lines = append(lines, fmt.Sprintf("VIOLATION property=%s replay=%s", p.ID, path))
		fmt.Fprintf(os.Stderr, "--- %s\n%s\n", v.Key, tail(v.Desc, 4000))
		exit = 1
	}

	for _, f := range known {
		fmt.Printf("KNOWN-FINDING: property=%s %s: %s (observed in %d cases this run)\n", p.ID, f.ID, f.What, total.KnownHits[f.ID])
	}
	for _, l := range lines {
		fmt.Println(l)
	}

	wall := time.Since(start).Seconds()
	exhaustive := len(total.Incomplete) == 0 && len(crashed) == 0
	if err := writeEvidence(p, tier, total, exhaustive, wall, len(lines), len(units), known); err != nil {
		fmt.Fprintln(os.Stderr, "engine error:", err)
		return 2
	}
	fmt.Fprintf(os.Stderr, "%s %s: units=%d evals=%d states=%d nontrivial=%d transitions=%d violations=%d known=%v exhaustive=%v wall=%.1fs\n",
		p.ID, tier, len(units), total.Evals, int64(len(total.States))+total.ExtraStates, int64(len(total.Nontrivial))+total.ExtraNontrivial, total.Transitions, len(lines), total.KnownHits, exhaustive, wall)
	if len(total.Incomplete) > 0 {
		fmt.Fprintf(os.Stderr, "%s: time budget reached; %d units cut (first: %s)\n", p.ID, len(total.Incomplete), total.Incomplete[0])
	}
	return exit
}

type queue struct {
	mu    sync.Mutex
	items []int
}

func (q *queue) pop() (int, bool) {
	q.mu.Lock()
	defer q.mu.Unlock()
	if len(q.items) == 0 {
		return 0, false
	}
	u := q.items[0]
	q.items = q.items[1:]
	return u, true
}

func (q *queue) push(us []int) {
	q.mu.Lock()
	defer q.mu.Unlock()
	q.items = append(q.items, us...)
}

type limitedWriter struct {
	w *strings.Builder
	n int
}

func (l *limitedWriter) Write(b []byte) (int, error) {
	// keep the tail: fatal errors print the reason first, but stack dumps are huge; keep head+tail
	if l.w.Len() < l.n {
		l.w.Write(b)
	}
	return len(b), nil
}

func tail(s string, n int) string {
	if len(s) <= n {
		return s
	}
	return s[:n] + "\n…"
}

func safeCheck(p *Prop, c Case) (o Outcome) {
	defer func() {
		if r := recover(); r != nil {
			o = Outcome{OK: false, Key: "engine-panic", Desc: fmt.Sprintf("panic in check: %v\n%s", r, debug.Stack())}
		}
	}()
	return p.Check(c)
}

func workerMain(args []string) int {
	p := Registry[args[0]]
	tier := args[1]
	out := args[2]
	dl, _ := strconv.ParseInt(args[3], 10, 64)
	loadKnown(p)
	debug.SetMaxStack(256 << 20)
	// memory watchdog: the sandbox has no memory limit
	go func() {
		var ms runtime.MemStats
		for {
			time.Sleep(500 * time.Millisecond)
			runtime.ReadMemStats(&ms)
			if ms.Sys > 6<<30 {
				fmt.Fprintln(os.Stderr, "worker: memory limit exceeded (6 GiB)")
				os.Exit(3)
			}
		}
	}()
	units := p.Units(tier)
	rep := NewReport()
	ctx := &Ctx{Tier: tier, Seed: seed(), Deadline: time.Unix(0, dl), R: rep, Prop: p}
	rd := bufio.NewReader(os.Stdin)
	for {
		line, err := rd.ReadString('\n')
		if err != nil {
			break
		}
		u, err := strconv.Atoi(strings.TrimSpace(line))
		if err != nil || u < 0 || u >= len(units) {
			fmt.Fprintln(os.Stderr, "worker: bad unit", line)
			return 2
		}
		ctx.unit = units[u]
		if ctx.Expired() {
			ctx.Cut("not started")
		} else {
			p.Run(ctx, u)
		}
		fmt.Println("done")
	}
	rep.finish()
	b, err := json.Marshal(rep)
	if err != nil {
		fmt.Fprintln(os.Stderr, "worker:", err)
		return 2
	}
	if err := os.WriteFile(out, b, 0o644); err != nil {
		fmt.Fprintln(os.Stderr, "worker:", err)
		return 2
	}
	return 0
}

func replayMain(path string) int {
	b, err := os.ReadFile(path)
	if err != nil {
		fmt.Fprintln(os.Stderr, err)
		return 2
	}
	var doc struct {
		Property string `json:"property"`
		Key      string `json:"key"`
		Case     Case   `json:"case"`
	}
	if err := json.Unmarshal(b, &doc); err != nil {
		fmt.Fprintln(os.Stderr, err)
		return 2
	}
	p, ok := Registry[doc.Property]
	if !ok {
		fmt.Fprintln(os.Stderr, "unknown property", doc.Property)
		return 2
	}
	loadKnown(p)
	if strings.HasPrefix(doc.Key, "worker-crash:") {
		fmt.Println("crash replay: re-run the unit with `vcheck units` / the tier command")
		return 1
	}
	o := safeCheck(p, doc.Case)
	if o.OK {
		fmt.Printf("replay %s: property %s holds on this case now\n", path, doc.Property)
		return 0
	}
	fmt.Printf("replay %s: still failing\nkey: %s\n%s\n", path, o.Key, o.Desc)
	if o.Known != "" {
		fmt.Printf("KNOWN-FINDING: property=%s %s\n", doc.Property, o.Known)
		return 0
	}
	fmt.Printf("VIOLATION property=%s replay=%s\n", doc.Property, path)
	return 1
}

func writeEvidence(p *Prop, tier string, r *Report, exhaustive bool, wall float64, nviol, nunits int, known []Finding) error {
	cov := map[string]interface{}{
		"evaluations":                   r.Evals,
		"distinct_nontrivial":           int64(len(r.Nontrivial)) + r.ExtraNontrivial,
		"rule":                          p.Rule,
		"samples":                       r.Samples,
		"states":                        int64(len(r.States)) + r.ExtraStates,
		"transitions":                   r.Transitions,
		"traces_validated_against_impl": r.Traces,
		"exhaustive":                    exhaustive,
		"units":                         nunits,
		"counters":                      r.Counters,
	}
	if len(r.MaxInfo) > 0 {
		cov["bounds"] = r.MaxInfo
	}
	if len(r.Incomplete) > 0 {
		inc := r.Incomplete
		if len(inc) > 20 {
			inc = inc[:20]
		}
		cov["cut_by_time_budget"] = inc
		cov["cut_units"] = len(r.Incomplete)
	}
	if len(r.Notes) > 0 {
		n := r.Notes
		if len(n) > 20 {
			n = n[:20]
		}
		cov["notes"] = n
	}
	if len(known) > 0 {
		kf := map[string]interface{}{}
		for _, f := range known {
			kf[f.ID] = map[string]interface{}{"hits": r.KnownHits[f.ID], "example": tail(r.KnownEx[f.ID], 600)}
		}
		cov["known_findings"] = kf
	}
	if r.Samples == nil {
		cov["samples"] = []interface{}{}
	}
	if p := os.Getenv("VERIF_INSTR_STATS"); p != "" {
		if b, err := os.ReadFile(p); err == nil {
			var v interface{}
			if json.Unmarshal(b, &v) == nil {
				cov["instrumentation"] = v
			}
		}
	}
	doc := map[string]interface{}{
		"property_id": p.ID,
		"tier":        tier,
		"seed":        seed(),
		"level":       p.Level,
		"coverage":    cov,
		"assumptions": p.Assumptions,
		"wall_s":      wall,
		"violations":  nviol,
	}
	b, err := json.MarshalIndent(doc, "", " ")
	if err != nil {
		return err
	}
	dir := filepath.Join(Root(), "evidence")
	os.MkdirAll(dir, 0o755)
	return os.WriteFile(filepath.Join(dir, p.ID+".json"), b, 0o644)
}
