// Package explore implements the stateless, deviation-bounded choice-tree explorer (E-CHOICE) and
// the explicit-state breadth-first search over operation histories (E-STATE).
package explore

import "fmt"

// Chooser is handed to an execution body; every nondeterministic decision goes through Choose.
type Chooser struct {
	prefix  []int
	Choices []int
	ns      []int
	free    []bool
}

// Choose returns a value in [0,n). 0 is the default (no deviation); any other value costs one
// deviation. During replay of a prefix an out-of-range choice is a hard error.
func (c *Chooser) Choose(n int) int { return c.choose(n, false) }

// ChooseFree is Choose for a point whose alternatives are not deviations (e.g. which thread runs
// next when the running thread has blocked or finished).
func (c *Chooser) ChooseFree(n int) int { return c.choose(n, true) }

func (c *Chooser) choose(n int, free bool) int {
	i := len(c.Choices)
	v := 0
	if i < len(c.prefix) {
		v = c.prefix[i]
		if v < 0 || v >= n {
			panic(fmt.Sprintf("explore: replay divergence at choice %d: recorded %d, only %d alternatives", i, v, n))
		}
	}
	c.Choices = append(c.Choices, v)
	c.ns = append(c.ns, n)
	c.free = append(c.free, free)
	return v
}

// Deviations so far.
func (c *Chooser) Deviations() int {
	d := 0
	for i, v := range c.Choices {
		if v != 0 && !c.free[i] {
			d++
		}
	}
	return d
}

// Replay runs body once with the given choice vector (used by replay files).
func Replay(choices []int, body func(*Chooser)) {
	c := &Chooser{prefix: choices}
	body(c)
	if len(c.Choices) < len(choices) {
		panic(fmt.Sprintf("explore: replay divergence: execution made %d choices, recording has %d", len(c.Choices), len(choices)))
	}
}

// Tree explores all choice vectors with at most Bound deviations.
type Tree struct {
	Bound int
	// Shard/NShards distribute the level-1 subtrees; the root execution belongs to shard 0.
	Shard, NShards int
	// Stop is polled between executions; exploration ends early (Cut=true) when it returns true.
	Stop func() bool
	Cut  bool
	// statistics
	Executions  int64
	Transitions int64
	MaxPoints   int
}

func (t *Tree) Explore(body func(*Chooser)) {
	if t.NShards == 0 {
		t.NShards = 1
	}
	ordinal := 0
	root := t.run(nil, body, t.Shard == 0)
	t.branch(root, 0, 0, body, &ordinal, true)
}

func (t *Tree) run(prefix []int, body func(*Chooser), execute bool) *Chooser {
	c := &Chooser{prefix: prefix}
	if !execute {
		// the root of a non-zero shard still has to be executed to learn the choice points, but its
		// outcome is judged by shard 0; bodies see this through Skip.
		c.prefix = prefix
	}
	skipJudge = !execute
	body(c)
	skipJudge = false
	if len(c.Choices) < len(prefix) {
		panic(fmt.Sprintf("explore: replay divergence: prefix has %d choices, execution made %d", len(prefix), len(c.Choices)))
	}
	if execute {
		t.Executions++
	}
	if len(c.Choices) > t.MaxPoints {
		t.MaxPoints = len(c.Choices)
	}
	return c
}

var skipJudge bool

// SkipJudge is true while the explorer runs a body only to discover its choice points (root of a
// non-zero shard); bodies should skip expensive work and must not record outcomes.
func SkipJudge() bool { return skipJudge }

func (t *Tree) branch(x *Chooser, from int, cost int, body func(*Chooser), ordinal *int, top bool) {
	for i := from; i < len(x.Choices); i++ {
		step := 1
		if x.free[i] {
			step = 0
		}
		if cost+step > t.Bound {
			continue
		}
		for alt := 1; alt < x.ns[i]; alt++ {
			if t.Cut || (t.Stop != nil && t.Stop()) {
				t.Cut = true
				return
			}
			if top {
				o := *ordinal
				*ordinal = o + 1
				if o%t.NShards != t.Shard {
					continue
				}
			}
			prefix := append(append([]int{}, x.Choices[:i]...), alt)
			t.Transitions++
			y := t.run(prefix, body, true)
			t.branch(y, i+1, cost+step, body, ordinal, false)
		}
	}
}
