package explore

// BFS is the explicit-state breadth-first search over operation histories (E-STATE). A state is the
// history that reaches it; successors are built by the caller's step function, which replays the
// whole history on a fresh real object, applies one more operation, checks the invariants and
// returns the canonical key of the reached state. Histories whose key was already seen are not
// extended (merged states must have equal futures — argued per property).
type BFS struct {
	MaxDepth int
	NOps     int
	Stop     func() bool
	// Root restricts the first operation (sharding); -1 = all.
	Root int

	States      int
	Transitions int64
	Depth       int
	Cut         bool
	Seen        map[string]bool
}

// Step executes hist and returns (key, expand). expand=false: do not extend this history (invalid
// operation in this state, or an invariant failed).
type Step func(hist []int) (key string, expand bool)

func (b *BFS) Run(step Step) {
	if b.Seen == nil {
		b.Seen = map[string]bool{}
	}
	k0, ok := step(nil)
	b.Seen[k0] = true
	b.States = 1
	if !ok {
		return
	}
	frontier := [][]int{nil}
	for d := 1; d <= b.MaxDepth && len(frontier) > 0; d++ {
		var next [][]int
		for _, h := range frontier {
			for op := 0; op < b.NOps; op++ {
				if d == 1 && b.Root >= 0 && op != b.Root {
					continue
				}
				if b.Stop != nil && b.Stop() {
					b.Cut = true
					return
				}
				nh := append(append(make([]int, 0, len(h)+1), h...), op)
				key, expand := step(nh)
				b.Transitions++
				if key == "" {
					continue
				}
				if b.Seen[key] {
					continue
				}
				b.Seen[key] = true
				b.States++
				if expand {
					next = append(next, nh)
				}
			}
		}
		b.Depth = d
		frontier = next
	}
}
