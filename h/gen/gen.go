// Package gen holds the corpus loader, the gap/alphabet input generators and canonicalisation.
package gen

import (
	"bytes"
	"fmt"
	"go/format"
	"go/parser"
	"go/scanner"
	"go/token"
	"os"
	"path/filepath"
	"sort"
	"strings"

	"verif/core"
)

type Template struct {
	Name string
	Src  string
}

var cache = map[string][]Template{}

// Load reads a txtar-like corpus file from /verif/corpus.
func Load(file string) []Template {
	if t, ok := cache[file]; ok {
		return t
	}
	b, err := os.ReadFile(filepath.Join(core.Root(), "corpus", file))
	if err != nil {
		panic(err)
	}
	var out []Template
	var cur *Template
	var buf []string
	flush := func() {
		if cur != nil {
			cur.Src = strings.Join(buf, "\n") + "\n"
			out = append(out, *cur)
		}
	}
	for _, line := range strings.Split(strings.TrimSuffix(string(b), "\n"), "\n") {
		if strings.HasPrefix(line, "-- ") && strings.HasSuffix(line, " --") {
			flush()
			cur = &Template{Name: strings.TrimSuffix(strings.TrimPrefix(line, "-- "), " --")}
			buf = nil
			continue
		}
		buf = append(buf, line)
	}
	flush()
	cache[file] = out
	return out
}

// Templates is the main corpus; every entry is verified gofmt-canonical by SelfCheck.
func Templates() []Template { return Load("templates.txt") }

func Find(ts []Template, name string) (Template, bool) {
	for _, t := range ts {
		if t.Name == name {
			return t, true
		}
	}
	return Template{}, false
}

// Canonical returns gofmt(src) if src parses and gofmt is idempotent on it.
func Canonical(src string) (string, bool) {
	c, err := format.Source([]byte(src))
	if err != nil {
		return "", false
	}
	c2, err := format.Source(c)
	if err != nil || !bytes.Equal(c, c2) {
		return "", false
	}
	return string(c), true
}

func Parses(src string) bool {
	_, err := parser.ParseFile(token.NewFileSet(), "", src, parser.ParseComments)
	return err == nil
}

// Tok is one scanner token (auto-inserted semicolons excluded).
type Tok struct {
	Off, End int
	Tok      token.Token
	Lit      string
}

// Tokens scans src; comments are returned only if withComments.
func Tokens(src string, withComments bool) ([]Tok, bool) {
	fset := token.NewFileSet()
	f := fset.AddFile("", fset.Base(), len(src))
	var s scanner.Scanner
	nerr := 0
	mode := scanner.Mode(0)
	if withComments {
		mode = scanner.ScanComments
	}
	s.Init(f, []byte(src), func(token.Position, string) { nerr++ }, mode)
	var out []Tok
	for {
		pos, tok, lit := s.Scan()
		if tok == token.EOF {
			break
		}
		if tok == token.SEMICOLON && lit != ";" {
			continue // automatically inserted
		}
		off := f.Offset(pos)
		l := len(lit)
		if l == 0 {
			l = len(tok.String())
		}
		// raw strings/comments containing \r are shortened by the scanner; recompute end by scanning is
		// not needed for the corpus (no \r in templates)
		out = append(out, Tok{Off: off, End: off + l, Tok: tok, Lit: lit})
	}
	return out, nerr == 0
}

// Gaps returns the byte offsets at which decorations are inserted: for each run of whitespace
// between two tokens (and at file start / end) the start of the run, the start of each further
// line inside the run, and the position directly before the next token. Offsets inside comments
// or tokens are never produced. Comments in the template count as tokens.
func Gaps(src string) []int {
	toks, _ := Tokens(src, true)
	set := map[int]bool{}
	add := func(from, to int) {
		set[from] = true
		set[to] = true
		for i := from; i < to; i++ {
			if src[i] == '\n' && i+1 <= to {
				set[i+1] = true
			}
		}
	}
	prev := 0
	for _, t := range toks {
		add(prev, t.Off)
		prev = t.End
		if t.Tok == token.COMMENT && strings.HasPrefix(t.Lit, "//") {
			// the newline ending a line comment belongs to it
			if prev < len(src) && src[prev] == '\n' {
				prev++
			}
		}
	}
	if prev <= len(src) {
		add(prev, len(src))
	}
	var out []int
	for o := range set {
		out = append(out, o)
	}
	sort.Ints(out)
	return out
}

// Ins is one insertion: alphabet letter a at gap index g.
type Ins struct {
	Gap    int `json:"g"`
	Letter int `json:"a"`
}

// Alphabet letters; %d is replaced by the serial number of the insertion.
var Sigma = []string{"/*c%d*/", "// c%d\n", "\n", "\n\n", "/*c%d\nd*/"}

// SigmaWS extends Sigma for C03 (non-canonical whitespace).
var SigmaWS = []string{"/*c%d*/", "// c%d\n", "\n", "\n\n", "/*c%d\nd*/", " ", "\t", "\r\n", "    ", "//c%d\n", "/**/"}

// Apply inserts the letters at their gaps (ins sorted by gap, one per gap).
func Apply(src string, gaps []int, alphabet []string, ins []Ins) string {
	var b strings.Builder
	last := 0
	serial := 0
	for _, in := range ins {
		off := gaps[in.Gap]
		b.WriteString(src[last:off])
		serial++
		l := alphabet[in.Letter]
		if strings.Contains(l, "%d") {
			l = fmt.Sprintf(l, serial)
		}
		b.WriteString(l)
		last = off
	}
	b.WriteString(src[last:])
	return b.String()
}
