// Package oracle holds reference models and independent oracles (typed worlds, import tables).
package oracle

import (
	"fmt"
	"go/ast"
	"go/parser"
	"go/token"
	"go/types"
	"sort"
)

// World is an in-memory multi-package program: import path -> source of the package (one file).
// It is a types.Importer that type-checks dependencies from source; nothing touches the disk or the
// real standard library.
type World struct {
	Src map[string]string
	// Real maps an import string to the package's real path when they differ (vendoring).
	Real  map[string]string
	cache map[string]*types.Package
}

func NewWorld(src map[string]string) *World {
	return &World{Src: src, cache: map[string]*types.Package{}}
}

func (w *World) Import(path string) (*types.Package, error) {
	if p, ok := w.cache[path]; ok {
		return p, nil
	}
	src, ok := w.Src[path]
	if !ok {
		return nil, fmt.Errorf("world: no package %q", path)
	}
	fset := token.NewFileSet()
	f, err := parser.ParseFile(fset, path+"/p.go", src, 0)
	if err != nil {
		return nil, err
	}
	conf := types.Config{Importer: w}
	real := path
	if r, ok := w.Real[path]; ok {
		real = r
	}
	p, err := conf.Check(real, fset, []*ast.File{f}, nil)
	if err != nil {
		return nil, err
	}
	w.cache[path] = p
	return p, nil
}

// Names returns path -> package name for every package of the world.
func (w *World) Names() map[string]string {
	out := map[string]string{}
	for path := range w.Src {
		p, err := w.Import(path)
		if err != nil {
			panic(err)
		}
		out[path] = p.Name()
	}
	return out
}

// Checked is a type-checked package under test.
type Checked struct {
	Fset  *token.FileSet
	Files []*ast.File
	Info  *types.Info
	Pkg   *types.Package
}

// Check parses (with comments) and type-checks the given files as package `path`.
func (w *World) Check(path string, files map[string]string) (*Checked, error) {
	return w.CheckMode(path, files, parser.ParseComments)
}

// CheckMode is Check with the given parser mode (e.g. parser.SkipObjectResolution).
func (w *World) CheckMode(path string, files map[string]string, mode parser.Mode) (*Checked, error) {
	fset := token.NewFileSet()
	var names []string
	for n := range files {
		names = append(names, n)
	}
	sort.Strings(names)
	var afs []*ast.File
	for _, n := range names {
		f, err := parser.ParseFile(fset, n, files[n], mode)
		if err != nil {
			return nil, err
		}
		afs = append(afs, f)
	}
	info := &types.Info{Uses: map[*ast.Ident]types.Object{}, Defs: map[*ast.Ident]types.Object{}, Selections: map[*ast.SelectorExpr]*types.Selection{}}
	conf := types.Config{Importer: w, FakeImportC: true}
	pkg, err := conf.Check(path, fset, afs, info)
	if err != nil {
		return nil, err
	}
	return &Checked{Fset: fset, Files: afs, Info: info, Pkg: pkg}, nil
}

// StdWorld is the small universe of dependency packages used by the import-related checks. Two
// packages share the name x; one package's name (y) differs from the last element of its path.
func StdWorld() *World {
	dep := func(name string) string {
		return "package " + name + "\n\ntype T struct{ F int }\n\nfunc (T) M() {}\n\nfunc F(a ...interface{}) T { return T{} }\n\nvar V int\n\nconst K = 1\n\ntype I interface{ M() }\n\ntype G[P any] struct{ P P }\n\nfunc Id1() {}\n\nfunc Id2() {}\n\nfunc Id3() {}\n"
	}
	return NewWorld(map[string]string{
		"fmt":      "package fmt\n\ntype Stringer interface{ String() string }\n\nfunc Println(a ...interface{}) {}\n\nfunc Sprint(a ...interface{}) string { return \"\" }\n\nfunc Fprintf(w interface{}, f string, a ...interface{}) {}\n\nfunc Id1() {}\n",
		"io":       "package io\n\ntype Reader interface{ Read(p []byte) (int, error) }\n\ntype Writer interface{ Write(p []byte) (int, error) }\n\nvar EOF error\n\nfunc Id2() {}\n",
		"os":       "package os\n\nfunc Exit(int) {}\n\nvar Args []string\n",
		"bytes":    "package bytes\n\ntype Buffer struct{ n int }\n\nfunc (b *Buffer) Len() int { return b.n }\n\nfunc (b *Buffer) Read(p []byte) (int, error) { return 0, nil }\n\nfunc NewBufferString(s string) *Buffer { return nil }\n",
		"a.b/x":    dep("x"),
		"c.d/x":    dep("x"),
		"e.f/y-go": dep("y"),
		// path elements that merely end in "vendor" are not vendor directories
		"k.io/govendor/ctx": dep("ctx"),
		"k.io/myvendor/api": dep("api"),
		// a package that is really named like a version
		"k.io/api/core/v1": dep("v1"),
	})
}
