package props

import (
	"bytes"
	"fmt"
	"go/format"
	"go/parser"
	"go/token"
	"os"
	"path/filepath"
	"strings"

	"github.com/dave/dst"
	"github.com/dave/dst/decorator"
	"github.com/dave/dst/decorator/resolver/goast"
	"github.com/dave/dst/decorator/resolver/guess"

	"verif/core"
	"verif/gen"
)

const c01Shards = 4

func init() {
	core.Register(&core.Prop{
		ID:    "C01",
		Level: "model_checking",
		Rule: "choice-tree exploration: every corpus template x every assignment of <=k letters of {/*c*/, // c, newline, blank line, multi-line /*c*/} to its inter-token gaps, " +
			"canonicalised with gofmt and deduplicated (state = canonical text); each distinct canonical file is pushed through Parse/Fprint, explicit Decorator+Restorer on a shared populated FileSet (also: one Restorer restoring two files before either is printed; a Restorer with Extras; the Decorate/DecorateFile/RestoreFile helpers and a named FileRestorer), " +
			"ParseFile with 3 parser modes, (files with imports) import management with the goast and guess resolvers, and (k<=1) ParseDir; plus one big file made of the declarations of all import-free templates (thorough: with every single comment insertion); in the quick tier files with two insertions go through the three principal entry points only (Parse+Fprint, shared FileSet, one Restorer for two files); non-trivial = canonical file with at least one insertion",
		Assumptions: []string{"go/format of this toolchain defines 'gofmt canonical'", "comment texts range over the alphabet only", "templates are the committed corpus"},
		Units: func(tier string) []string {
			return append(gapUnits(gen.Templates(), c01Shards), "big-file#0/4", "big-file#1/4", "big-file#2/4", "big-file#3/4")
		},
		Run: runC01,
		Check: func(c core.Case) core.Outcome {
			g := decodeGap(c)
			return checkC01(g.Src, true, true)
		},
	})
}

// c01BigFile concatenates the declarations of every import-free template into one file of several
// hundred lines (sizes the single templates never reach: line tables, buffers, offsets beyond 4 KB).
func c01BigFile() string {
	var b strings.Builder
	b.WriteString("package a\n")
	for _, t := range gen.Templates() {
		if strings.Contains(t.Src, "import") || strings.Contains(t.Src, "//line") || strings.Contains(t.Src, "/*line") || strings.Contains(t.Src, "//go:build") || !strings.HasPrefix(t.Src, "package a\n") {
			continue
		}
		b.WriteString(strings.TrimPrefix(t.Src, "package a\n"))
	}
	out, err := gofmt(b.String())
	if err != nil {
		panic(err)
	}
	return out
}

func runC01(ctx *core.Ctx, unit int) {
	if base := len(gen.Templates()) * c01Shards; unit >= base {
		big := c01BigFile()
		t := gen.Template{Name: "big-file", Src: big}
		ctx.Max("big_file_bytes", float64(len(big)))
		// the file as it is and (thorough) with every single insertion of a block comment or a line comment
		k := 0
		if ctx.Thorough() {
			k = 1
		}
		forEachCanonical(ctx, t, gen.Sigma[:2], k, unit-base, 4, func(gc GapCase) {
			ctx.Eval(gc, checkC01(gc.Src, len(gc.Ins) == 0, true))
		})
		return
	}
	ti, shard := splitUnit(unit, c01Shards)
	t := gen.Templates()[ti]
	k := 2
	if ctx.Thorough() {
		k = 3
		if len(gen.Gaps(t.Src)) > 45 {
			k = 2
		}
	}
	alphabet := gen.Sigma
	forEachCanonical(ctx, t, alphabet, k, shard, c01Shards, func(gc GapCase) {
		// quick tier: files with two insertions go through the three principal entry points (Parse+Fprint,
		// Decorator+Restorer on a shared FileSet, one Restorer for two files); files with at most one
		// insertion, and everything in the thorough tier, go through all of them
		o := checkC01(gc.Src, len(gc.Ins) <= 1, len(gc.Ins) <= 1 || ctx.Thorough())
		ctx.Eval(gc, o)
		if len(gc.Ins) == 2 {
			ctx.Sample(gc)
		}
	})
}

// checkC01 pushes one canonical source through every entry point.
func checkC01(src string, withDir, full bool) core.Outcome {
	type ep struct {
		name string
		f    func() (string, error)
	}
	principal := map[string]bool{"Parse+Fprint": true, "Decorator+Restorer(shared fset)": true, "one Restorer, two files restored, then both printed": true}
	eps := []ep{
		{"Parse+Fprint", func() (string, error) { return roundTrip(src) }},
		{"Decorator+Restorer(shared fset)", func() (string, error) {
			fset := token.NewFileSet()
			// populate the caller's FileSet first so that bases are not 1
			if _, err := parser.ParseFile(fset, "other.go", "package other\n\nvar x = 1\n", parser.ParseComments); err != nil {
				return "", err
			}
			af, err := parser.ParseFile(fset, "a.go", src, parser.ParseComments)
			if err != nil {
				return "", err
			}
			d := decorator.NewDecorator(fset)
			df, err := d.DecorateFile(af)
			if err != nil {
				return "", err
			}
			r := decorator.NewRestorer()
			r.Fset = fset
			rf, err := r.RestoreFile(df)
			if err != nil {
				return "", err
			}
			var buf bytes.Buffer
			err = format.Node(&buf, fset, rf)
			return buf.String(), err
		}},
	}
	if strings.Contains(src, "\nimport ") && !strings.Contains(src, "\"C\"") {
		// files with imports also go through import management (qualified identifiers collapse to path-carrying
		// identifiers and expand back): an unedited canonical file must come out byte for byte there as well
		principal["import management (goast + guess)"] = true
		eps = append(eps, ep{"import management (goast + guess)", func() (string, error) {
			d := decorator.NewDecoratorWithImports(token.NewFileSet(), "example.com/local", goast.New())
			df, err := d.Parse(src)
			if err != nil {
				return "", err
			}
			var buf bytes.Buffer
			err = decorator.NewRestorerWithImports("example.com/local", guess.New()).Fprint(&buf, df)
			return buf.String(), err
		}})
	}
	eps = append(eps, ep{"helpers Decorate + RestoreFile", func() (string, error) {
		fset := token.NewFileSet()
		af, err := parser.ParseFile(fset, "a.go", src, parser.ParseComments)
		if err != nil {
			return "", err
		}
		dn, err := decorator.Decorate(fset, af)
		if err != nil {
			return "", err
		}
		rfset, raf, err := decorator.RestoreFile(dn.(*dst.File))
		if err != nil {
			return "", err
		}
		var buf bytes.Buffer
		err = format.Node(&buf, rfset, raf)
		return buf.String(), err
	}})
	eps = append(eps, ep{"helper DecorateFile + FileRestorer.Fprint", func() (string, error) {
		fset := token.NewFileSet()
		af, err := parser.ParseFile(fset, "a.go", src, parser.ParseComments)
		if err != nil {
			return "", err
		}
		df, err := decorator.DecorateFile(fset, af)
		if err != nil {
			return "", err
		}
		fr := decorator.NewRestorer().FileRestorer()
		fr.Name = "restored.go"
		var buf bytes.Buffer
		err = fr.Fprint(&buf, df)
		return buf.String(), err
	}})
	eps = append(eps, ep{"Restorer with Extras", func() (string, error) {
		f, err := decorator.Parse(src)
		if err != nil {
			return "", err
		}
		r := decorator.NewRestorer()
		r.Extras = true
		var buf bytes.Buffer
		err = r.Fprint(&buf, f)
		return buf.String(), err
	}})
	eps = append(eps, ep{"one Restorer, two files restored, then both printed", func() (string, error) {
		// explicit decorator and restorer on the caller's file set: restore the candidate, then a second
		// file with the same Restorer, and only then print the first
		fset := token.NewFileSet()
		d := decorator.NewDecorator(fset)
		fa, err := d.ParseFile("a.go", src, parser.ParseComments)
		if err != nil {
			return "", err
		}
		fb, err := d.ParseFile("b.go", siblingLong, parser.ParseComments)
		if err != nil {
			return "", err
		}
		r := decorator.NewRestorer()
		r.Fset = fset
		ra, err := r.RestoreFile(fa)
		if err != nil {
			return "", err
		}
		rb, err := r.RestoreFile(fb)
		if err != nil {
			return "", err
		}
		var ba, bb bytes.Buffer
		if err := format.Node(&ba, fset, ra); err != nil {
			return "", err
		}
		if err := format.Node(&bb, fset, rb); err != nil {
			return "", err
		}
		if bb.String() != siblingLong {
			return "", fmt.Errorf("second file restored by the same Restorer changed: %q", bb.String())
		}
		return ba.String(), nil
	}})
	for _, mode := range []parser.Mode{0, parser.ParseComments, parser.SkipObjectResolution} {
		mode := mode
		eps = append(eps, ep{fmt.Sprintf("ParseFile(mode=%d)+Restorer.Fprint", mode), func() (string, error) {
			fset := token.NewFileSet()
			df, err := decorator.ParseFile(fset, "a.go", src, mode)
			if err != nil {
				return "", err
			}
			var buf bytes.Buffer
			err = decorator.NewRestorer().Fprint(&buf, df)
			return buf.String(), err
		}})
	}
	for _, e := range eps {
		if !full && !principal[e.name] {
			continue
		}
		var out string
		var err error
		if p := guard(func() { out, err = e.f() }); p != "" {
			return core.Outcome{Key: "panic:" + e.name + ":" + short(p, 80), Desc: fmt.Sprintf("entry point %s panicked: %s\ninput:\n%s", e.name, p, src)}
		}
		if err != nil {
			return core.Outcome{Key: "error:" + e.name, Desc: fmt.Sprintf("entry point %s returned error %v\ninput:\n%s", e.name, err, src)}
		}
		if out != src {
			if id := layoutKnown(src, out); id != "" {
				// the deviation has the shape of a listed finding; it is attributed to it only on the inputs
				// on which that finding was recorded (known_inputs/C01/<finding>.txt)
				for _, part := range strings.Split(id, "+") {
					if !core.KnownInput("C01", part, src) {
						return core.Outcome{Key: "new-input-with-the-shape-of:" + part, Desc: fmt.Sprintf("entry point %s: the output deviates like known finding %s, but this input is not among those recorded for it\n%s", e.name, part, diffDesc(src, out))}
					}
				}
				return core.Outcome{Known: id, Desc: diffDesc(src, out)}
			}
			return core.Outcome{Key: c01Key(src, out), Desc: fmt.Sprintf("entry point %s: output differs from canonical input\n%s", e.name, diffDesc(src, out))}
		}
	}
	// ParseDir with the candidate as the first (a.go) and as the last (z.go) file of the package, next to
	// a sibling (b.go) that itself begins and ends with comments
	for _, candName := range []string{"a.go", "z.go"} {
		if !withDir {
			break
		}
		var outA, outB string
		var err error
		if p := guard(func() { outA, outB, err = parseDirRoundTrip(src, candName) }); p != "" {
			return core.Outcome{Key: "panic:ParseDir:" + short(p, 80), Desc: fmt.Sprintf("ParseDir panicked: %s\ninput:\n%s", p, src)}
		}
		if err != nil {
			return core.Outcome{Key: "error:ParseDir", Desc: fmt.Sprintf("ParseDir returned error %v\ninput:\n%s", err, src)}
		}
		if outA != src || outB != siblingSrc {
			desc := fmt.Sprintf("entry point ParseDir (directory holding %s = input and b.go = sibling):\n%s: %s\nb.go: %s", candName, candName, diffDesc(src, outA), diffDesc(siblingSrc, outB))
			if core.IsKnown("C01-F6-parsedir-trailing-comment-migrates") && trailingCommentMigrated(src, outA, outB) {
				return core.Outcome{Known: "C01-F6-parsedir-trailing-comment-migrates", Desc: desc}
			}
			return core.Outcome{Key: "bytes:ParseDir:" + c01Class(src, outA), Desc: desc}
		}
	}
	return core.Outcome{OK: true}
}

// siblingLong has more lines than most candidates, so that a line table shared between two restored
// files is visibly overwritten
const siblingLong = "// Package a.\npackage a\n\nimport (\n\t\"fmt\"\n\n\t\"os\"\n)\n\n// f\nfunc f() {\n\tfmt.Println(os.Args)\n\n\t// done\n}\n\nvar (\n\ta = 1\n\n\tb = 2\n)\n"

// the sibling has code on many lines, so that anything one file does to the line bookkeeping of
// another file of the package shows
const siblingSrc = "// Copyright of the sibling.\n\n// Package a, sibling file.\npackage a\n\n// other file\nvar other = 1 // t\n\nvar (\n\to1 = []int{\n\t\t1,\n\t\t2,\n\t}\n\to2 = f(\n\t\t3,\n\t)\n)\n\nfunc g() {\n\th(\n\t\t4,\n\t)\n}\n\n// end of the sibling\n"

// trailingCommentMigrated: the input ends in comments after its last token; in the output exactly
// those comments left a.go and appeared at the start of b.go; nothing else changed.
func trailingCommentMigrated(src, outA, outB string) bool {
	toks, _ := gen.Tokens(src, true)
	n := len(toks)
	for n > 0 && toks[n-1].Tok == token.COMMENT {
		n--
	}
	if n == len(toks) || n == 0 {
		return false
	}
	wa, _ := gen.Tokens(src, false)
	ga, _ := gen.Tokens(outA, false)
	wb, _ := gen.Tokens(siblingSrc, false)
	gb, _ := gen.Tokens(outB, false)
	if !sameToks(wa, ga) || !sameToks(wb, gb) {
		return false
	}
	head := src[:toks[n-1].End]
	moved := src[toks[n-1].End:]
	return strings.HasPrefix(stripWS(outA), stripWS(head)) && stripWS(outA)+stripWS(outB) == stripWS(head)+stripWS(moved)+stripWS(siblingSrc) ||
		stripWS(outA)+stripWS(outB) == stripWS(src)+stripWS(siblingSrc) && stripWS(outA) != stripWS(src)
}

func parseDirRoundTrip(src string, candName string) (outA, outB string, err error) {
	dir, err := scratchDir("c01dir")
	if err != nil {
		return "", "", err
	}
	defer os.RemoveAll(dir)
	if err := os.WriteFile(filepath.Join(dir, candName), []byte(src), 0o644); err != nil {
		return "", "", err
	}
	if err := os.WriteFile(filepath.Join(dir, "b.go"), []byte(siblingSrc), 0o644); err != nil {
		return "", "", err
	}
	pkgs, err := decorator.ParseDir(token.NewFileSet(), dir, nil, 0)
	if err != nil {
		return "", "", err
	}
	found := 0
	for _, p := range pkgs {
		for name, f := range p.Files {
			s, err := printFile(f)
			if err != nil {
				return "", "", err
			}
			switch filepath.Base(name) {
			case candName:
				found++
				outA = s
			case "b.go":
				found++
				outB = s
			}
		}
	}
	if found != 2 {
		return "", "", fmt.Errorf("ParseDir returned %d of the 2 files", found)
	}
	return outA, outB, nil
}

// c01Class names the kind of difference, to group violations by root cause.
func c01Class(want, got string) string {
	wt, _ := gen.Tokens(want, false)
	gt, _ := gen.Tokens(got, false)
	if !sameToks(wt, gt) {
		return "tokens-differ"
	}
	wc, gc := commentTexts(want), commentTexts(got)
	if strings.Join(wc, "\x00") != strings.Join(gc, "\x00") {
		return "comments-differ"
	}
	if stripWS(want) == stripWS(got) {
		wl, gl := strings.Split(want, "\n"), strings.Split(got, "\n")
		if len(wl) != len(gl) {
			return "line-breaks-differ"
		}
		return "indentation-or-alignment-differs"
	}
	return "comment-position-differs"
}

func sameToks(a, b []gen.Tok) bool {
	if len(a) != len(b) {
		return false
	}
	for i := range a {
		if a[i].Tok != b[i].Tok || a[i].Lit != b[i].Lit {
			return false
		}
	}
	return true
}

func commentTexts(src string) []string {
	toks, _ := gen.Tokens(src, true)
	var out []string
	for _, t := range toks {
		if t.Tok == token.COMMENT {
			out = append(out, t.Lit)
		}
	}
	return out
}

func stripWS(s string) string {
	return strings.Map(func(r rune) rune {
		switch r {
		case ' ', '\t', '\n', '\r':
			return -1
		}
		return r
	}, s)
}

var _ = dst.NewIdent
var _ = bytes.NewBuffer

func c01Key(want, got string) string {
	c := c01Class(want, got)
	if c == "tokens-differ" || c == "comments-differ" {
		return "bytes:" + c
	}
	return "bytes:" + c + ":" + hunkShape(want, got)
}
