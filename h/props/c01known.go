package props

import (
	"go/ast"
	"go/parser"
	"go/token"
	"sort"
	"strings"

	"verif/core"
	"verif/gen"
)

// Attribution of byte differences to the known layout findings of C01 (DESIGN.md §5, known_findings.json).
// A difference is attributed only if, after undoing F1 (whose effect is confined to one comment), every
// hunk of differing lines matches the exact deviation of one listed finding. Anything else is a
// violation, including a second, different deviation on the same input.

// layoutKnown returns the "+"-joined ids of the findings that explain want->got, or "".
func layoutKnown(want, got string) string {
	ids := map[string]bool{}
	// F1: multi-line block comment abutting the package keyword is re-flowed
	if core.IsKnown("C01-F1-block-comment-abutting-package") {
		if g2, ok := undoF1(want, got); ok {
			got = g2
			ids["C01-F1-block-comment-abutting-package"] = true
		}
	}
	if got != want {
		wl, gl := strings.Split(want, "\n"), strings.Split(got, "\n")
		if len(wl) != len(gl) {
			return ""
		}
		for i := 0; i < len(wl); {
			if wl[i] == gl[i] {
				i++
				continue
			}
			j := i
			for j < len(wl) && wl[j] != gl[j] {
				j++
			}
			id := hunkKnown(wl, gl, i, j)
			if id == "" && ids["C01-F1-block-comment-abutting-package"] && alignmentOnly(wl[i:j], gl[i:j]) {
				// the re-flowed comment changes the width of the package line, which shifts the alignment
				// column of trailing comments in the same section: part of F1's effect
				id = "C01-F1-block-comment-abutting-package"
			}
			if id == "" || !core.IsKnown(id) {
				return ""
			}
			ids[id] = true
			i = j
		}
	}
	if len(ids) == 0 {
		return ""
	}
	var out []string
	for id := range ids {
		out = append(out, id)
	}
	sort.Strings(out)
	return strings.Join(out, "+")
}

func undoF1(want, got string) (string, bool) {
	find := func(src string) (off, end int, ok bool) {
		toks, _ := gen.Tokens(src, true)
		for i, t := range toks {
			if t.Tok == token.PACKAGE {
				if i == 0 {
					return 0, 0, false
				}
				c := toks[i-1]
				if c.Tok == token.COMMENT && c.End == t.Off && strings.HasPrefix(c.Lit, "/*") && strings.Contains(c.Lit, "\n") {
					return c.Off, c.End, true
				}
				return 0, 0, false
			}
		}
		return 0, 0, false
	}
	wo, we, ok1 := find(want)
	g0, ge, ok2 := find(got)
	if !ok1 || !ok2 || wo != g0 {
		return "", false
	}
	wc, gc := want[wo:we], got[g0:ge]
	if wc == gc || stripWS(wc) != stripWS(gc) {
		return "", false
	}
	return got[:g0] + wc + got[ge:], true
}

// lineInfo describes the lines of the expected text.
type lineInfo struct {
	lines      []string
	code       []bool   // a non-comment token starts or continues on this line
	comment    []bool   // a comment starts or continues on this line
	closesOpen []bool   // a comment opened on an earlier line ends on this line
	elems      [][2]int // [first line, last line] of every statement, declaration, spec, field and clause
	returns    [][2]int // the same for return statements
}

func newLineInfo(src string) *lineInfo {
	li := &lineInfo{lines: strings.Split(src, "\n")}
	n := len(li.lines)
	li.code, li.comment, li.closesOpen = make([]bool, n), make([]bool, n), make([]bool, n)
	lineOf := func(off int) int { return strings.Count(src[:off], "\n") }
	toks, _ := gen.Tokens(src, true)
	for _, t := range toks {
		l0, l1 := lineOf(t.Off), lineOf(t.End-1)
		if t.Tok == token.COMMENT && strings.HasPrefix(t.Lit, "//") {
			l1 = l0
		}
		for l := l0; l <= l1 && l < n; l++ {
			if t.Tok == token.COMMENT {
				li.comment[l] = true
			} else {
				li.code[l] = true
			}
		}
		if t.Tok == token.COMMENT && l1 > l0 && l1 < n {
			li.closesOpen[l1] = true
		}
	}
	fset := token.NewFileSet()
	f, err := parser.ParseFile(fset, "", src, parser.ParseComments)
	if err == nil {
		ast.Inspect(f, func(nd ast.Node) bool {
			switch nd.(type) {
			case ast.Stmt, ast.Decl, ast.Spec, *ast.Field:
				r := [2]int{fset.Position(nd.Pos()).Line - 1, fset.Position(nd.End()-1).Line - 1}
				if _, ok := nd.(*ast.BlockStmt); ok {
					return true
				}
				li.elems = append(li.elems, r)
				if _, ok := nd.(*ast.ReturnStmt); ok {
					li.returns = append(li.returns, r)
				}
			}
			return true
		})
	}
	return li
}

func (li *lineInfo) commentOnly(l int) bool { return li.comment[l] && !li.code[l] }
func (li *lineInfo) blank(l int) bool       { return strings.TrimSpace(li.lines[l]) == "" }

func indentOf(l string) int { return len(l) - len(strings.TrimLeft(l, "\t")) }

// hunkKnown classifies the block of differing lines [i,j).
func hunkKnown(wl, gl []string, i, j int) string {
	li := newLineInfo(strings.Join(wl, "\n"))
	oneTabDeeper, wsOnly, allCommentOnly := true, true, true
	for k := i; k < j; k++ {
		if gl[k] != "\t"+wl[k] {
			oneTabDeeper = false
		}
		if strings.TrimLeft(gl[k], "\t") != strings.TrimLeft(wl[k], "\t") {
			wsOnly = false
		}
		if !li.commentOnly(k) {
			allCommentOnly = false
		}
	}
	// F9: a //line (or /*line) directive written at column 1 inside an indented block is printed at the
	// block's indentation (gofmt keeps line directives at column 1; dst does not record columns)
	allDirective := true
	for k := i; k < j; k++ {
		if !(strings.HasPrefix(wl[k], "//line ") || strings.HasPrefix(wl[k], "/*line ")) || strings.TrimLeft(gl[k], "\t") != wl[k] || gl[k] == wl[k] {
			allDirective = false
		}
	}
	if allDirective {
		return "C01-F9-line-directive-indented"
	}
	next := j // next line that is neither blank nor comment-only
	for next < len(wl) && (li.blank(next) || li.commentOnly(next)) {
		next++
	}
	if oneTabDeeper && allCommentOnly && next < len(wl) && strings.HasPrefix(strings.TrimSpace(wl[next]), ")") {
		// F2/F3: own-line comment lines directly before a line starting with ")" are indented one level deeper
		if wl[next] == ")" {
			return "C01-F2-comment-before-rparen-of-decl-group"
		}
		return "C01-F3-comment-before-rparen-of-call"
	}
	if oneTabDeeper {
		// F5: continuation lines of a multi-line return statement that is followed by an own-line comment
		for _, r := range li.returns {
			if r[0] < i && j-1 <= r[1] && r[1] > r[0] {
				nb := r[1] + 1
				for nb < len(wl) && li.blank(nb) {
					nb++
				}
				if nb < len(wl) && li.commentOnly(nb) {
					return "C01-F5-multiline-return-results-before-comment"
				}
			}
		}
	}
	if wsOnly && allCommentOnly && i > 0 {
		// both texts must be gofmt fixpoints: gofmt preserves, rather than determines, this indentation
		if fixed, err := gofmt(strings.Join(gl, "\n")); err == nil && fixed == strings.Join(gl, "\n") {
			p := i - 1
			for p > 0 && (li.blank(p) || li.commentOnly(p) && !li.closesOpen[p]) {
				p--
			}
			// F7: the nearest preceding code line closes a multi-line block comment opened earlier
			if li.closesOpen[p] {
				return "C01-F7-comment-after-stmt-with-multiline-block-comment"
			}
			// F8: the nearest preceding element spans several lines and ends on a continuation line
			best := [2]int{-1, -1}
			for _, r := range li.elems {
				if r[1] == p && (best[0] < 0 || r[0] < best[0]) {
					best = r
				}
				if r[1] == p && li.closesOpen[r[0]] {
					return "C01-F7-comment-after-stmt-with-multiline-block-comment"
				}
			}
			// (a continuation line is indented deeper than the element's first line, or - the tail of a raw
			// string - less; a closing brace or parenthesis at the first line's indentation is not one)
			if best[0] >= 0 && best[0] < best[1] && indentOf(wl[best[1]]) != indentOf(wl[best[0]]) {
				return "C01-F8-comment-after-element-ending-on-continuation-line"
			}
		}
	}
	// F4: of two comments after the comma of a range clause's key, the first moves before the comma
	if j == i+1 {
		w, g := wl[i], gl[i]
		if strings.HasPrefix(strings.TrimSpace(w), "for ") {
			if k := strings.Index(w, ",/*"); k >= 0 {
				if e := strings.Index(w[k:], "*/ "); e >= 0 {
					c := w[k+1 : k+e+2]
					if !strings.Contains(c[2:len(c)-2], "*/") && g == w[:k]+" "+c+","+w[k+e+3:] {
						return "C01-F4-two-comments-after-range-key-comma"
					}
				}
			}
		}
	}
	return ""
}

// hunkShape summarises the differing hunks for grouping violations by root cause.
func hunkShape(want, got string) string {
	wl, gl := strings.Split(want, "\n"), strings.Split(got, "\n")
	if len(wl) != len(gl) {
		return "lines"
	}
	word := func(l string) string {
		f := strings.Fields(l)
		if len(f) == 0 {
			return ""
		}
		return short(f[0], 8)
	}
	var out []string
	for i := 0; i < len(wl); {
		if wl[i] == gl[i] {
			i++
			continue
		}
		j := i
		rel := "X"
		for j < len(wl) && wl[j] != gl[j] {
			j++
		}
		if gl[i] == "\t"+wl[i] {
			rel = "D"
		} else if wl[i] == "\t"+gl[i] {
			rel = "S"
		}
		prev, next := "", ""
		if i > 0 {
			prev = word(wl[i-1])
		}
		if j < len(wl) {
			next = word(wl[j])
		}
		out = append(out, rel+":"+prev+"|"+word(wl[i])+"|"+next)
		i = j
	}
	return strings.Join(out, ";")
}

// alignmentOnly: the lines differ only in the number of blanks inside them (not in indentation).
func alignmentOnly(a, b []string) bool {
	for i := range a {
		if indentOf(a[i]) != indentOf(b[i]) || strings.Join(strings.Fields(a[i]), " ") != strings.Join(strings.Fields(b[i]), " ") {
			return false
		}
	}
	return true
}
