package props

import (
	"bytes"
	"encoding/json"
	"fmt"
	"reflect"
	"strings"

	"github.com/dave/dst"
	"github.com/dave/dst/decorator"
	"github.com/dave/dst/dstutil"

	"verif/core"
	"verif/explore"
)

// C02: comments and spacing travel with their node when sibling lists are edited.

type c02Kind struct {
	Name string
	// Files: file templates with %A% and %B% where the two lists go.
	Files []string
	// element texts (plain and with an inner comment) for list A (3) and list B (2)
	A, B [][2]string
	// Inner2: element index -> text with a nested list whose last element carries a trailing comment
	// followed by a dangling comment line (both are inside the chunk)
	Inner2 map[int]string
	Term   string // terminator written after each element in own-line mode ("," for expression lists)
	Inline bool   // supports the inline (single line, ", "-separated) layout
	// Locate returns the two list holders (node + slice field name) in the decorated files.
	Locate func(files []*dst.File) [2]listRef
}

type listRef struct {
	Node  dst.Node
	Field string
}

func (l listRef) val() reflect.Value { return reflect.ValueOf(l.Node).Elem().FieldByName(l.Field) }
func (l listRef) Len() int           { return l.val().Len() }
func (l listRef) Get(i int) dst.Node { return l.val().Index(i).Interface().(dst.Node) }
func (l listRef) Set(nodes []dst.Node) {
	v := l.val()
	s := reflect.MakeSlice(v.Type(), 0, len(nodes))
	for _, n := range nodes {
		s = reflect.Append(s, reflect.ValueOf(n))
	}
	v.Set(s)
}
func (l listRef) All() []dst.Node {
	var out []dst.Node
	for i := 0; i < l.Len(); i++ {
		out = append(out, l.Get(i))
	}
	return out
}

// nth finds the n-th node (pre-order) of the given type name in f.
func nth(f *dst.File, typ string, n int) dst.Node {
	for _, nd := range allNodes(f) {
		if typeName(nd) == typ {
			if n == 0 {
				return nd
			}
			n--
		}
	}
	panic("c02: container not found: " + typ)
}

var c02Kinds = []c02Kind{
	{Name: "stmt", Inner2: map[int]string{2: "if e {\nf() // it2\n// id2\n}"}, Files: []string{"package p\n\nfunc f() {\n%A%\n}\n\nfunc g() {\n%B%\n}\n"},
		A: [][2]string{{"a()", "a( /*i0*/ )"}, {"b := c + d", "b := /*i1*/ c + d"}, {"if e {\nf()\n}", "if /*i2*/ e {\nf()\n}"}},
		B: [][2]string{{"x()", "x( /*i3*/ )"}, {"y++", "y /*i4*/ ++"}},
		Locate: func(fs []*dst.File) [2]listRef {
			return [2]listRef{{fs[0].Decls[0].(*dst.FuncDecl).Body, "List"}, {fs[0].Decls[1].(*dst.FuncDecl).Body, "List"}}
		}},
	{Name: "decl", Inner2: map[int]string{2: "type c struct {\nX int // it2\n// id2\n}"}, Files: []string{"package p\n\n%A%\n", "package q\n\n%B%\n"},
		A:      [][2]string{{"var a int", "var /*i0*/ a int"}, {"func b() {}", "func /*i1*/ b() {}"}, {"type c struct {\nX int\n}", "type c /*i2*/ struct {\nX int\n}"}},
		B:      [][2]string{{"var x int", "var /*i3*/ x int"}, {"const y = 1", "const y /*i4*/ = 1"}},
		Locate: func(fs []*dst.File) [2]listRef { return [2]listRef{{fs[0], "Decls"}, {fs[1], "Decls"}} }},
	{Name: "spec", Inner2: map[int]string{2: "d = []int{\n1, // it2\n// id2\n}"}, Files: []string{"package p\n\nvar (\n%A%\n)\n\nvar (\n%B%\n)\n"},
		A: [][2]string{{"a int", "a /*i0*/ int"}, {"b, c = 1, 2", "b, c = /*i1*/ 1, 2"}, {"d = []int{\n1,\n}", "d = /*i2*/ []int{\n1,\n}"}},
		B: [][2]string{{"x int", "x /*i3*/ int"}, {"y = 2", "y = /*i4*/ 2"}},
		Locate: func(fs []*dst.File) [2]listRef {
			return [2]listRef{{fs[0].Decls[0], "Specs"}, {fs[0].Decls[1], "Specs"}}
		}},
	{Name: "field", Inner2: map[int]string{2: "D struct {\nE int // it2\n// id2\n}"}, Files: []string{"package p\n\ntype S struct {\n%A%\n}\n\ntype T struct {\n%B%\n}\n"},
		A: [][2]string{{"A int", "A /*i0*/ int"}, {"B, C string", "B, C /*i1*/ string"}, {"D struct {\nE int\n}", "D /*i2*/ struct {\nE int\n}"}},
		B: [][2]string{{"X int", "X /*i3*/ int"}, {"Y bool", "Y /*i4*/ bool"}},
		Locate: func(fs []*dst.File) [2]listRef {
			return [2]listRef{{nth(fs[0], "StructType", 0).(*dst.StructType).Fields, "List"}, {nth(fs[0], "StructType", 2).(*dst.StructType).Fields, "List"}}
		}},
	{Name: "method", Inner2: map[int]string{2: "C(\nx int, // it2\n// id2\n)"}, Files: []string{"package p\n\ntype S interface {\n%A%\n}\n\ntype T interface {\n%B%\n}\n"},
		A: [][2]string{{"A()", "A( /*i0*/ )"}, {"B(x int) error", "B(x int) /*i1*/ error"}, {"C(\nx int,\n)", "C( /*i2*/\nx int,\n)"}},
		B: [][2]string{{"X()", "X( /*i3*/ )"}, {"Y() int", "Y() /*i4*/ int"}},
		Locate: func(fs []*dst.File) [2]listRef {
			return [2]listRef{{nth(fs[0], "InterfaceType", 0).(*dst.InterfaceType).Methods, "List"}, {nth(fs[0], "InterfaceType", 1).(*dst.InterfaceType).Methods, "List"}}
		}},
	{Name: "elt", Inner2: map[int]string{2: "f(\n4, // it2\n// id2\n)"}, Files: []string{"package p\n\nvar s = []int{\n%A%\n}\n\nvar t = []int{\n%B%\n}\n"}, Term: ",", Inline: true,
		A: [][2]string{{"1", "(1 /*i0*/)"}, {"2 + 3", "2 + /*i1*/ 3"}, {"f(\n4,\n)", "f( /*i2*/\n4,\n)"}},
		B: [][2]string{{"7", "(7 /*i3*/)"}, {"8 * 9", "8 * /*i4*/ 9"}},
		Locate: func(fs []*dst.File) [2]listRef {
			return [2]listRef{{nth(fs[0], "CompositeLit", 0), "Elts"}, {nth(fs[0], "CompositeLit", 1), "Elts"}}
		}},
	{Name: "arg", Inner2: map[int]string{2: "f(\n4, // it2\n// id2\n)"}, Files: []string{"package p\n\nvar s = g(\n%A%\n)\n\nvar t = h(\n%B%\n)\n"}, Term: ",", Inline: true,
		A: [][2]string{{"1", "(1 /*i0*/)"}, {"2 + 3", "2 + /*i1*/ 3"}, {"f(\n4,\n)", "f( /*i2*/\n4,\n)"}},
		B: [][2]string{{"7", "(7 /*i3*/)"}, {"8 * 9", "8 * /*i4*/ 9"}},
		Locate: func(fs []*dst.File) [2]listRef {
			return [2]listRef{{fs[0].Decls[0].(*dst.GenDecl).Specs[0].(*dst.ValueSpec).Values[0], "Args"}, {fs[0].Decls[1].(*dst.GenDecl).Specs[0].(*dst.ValueSpec).Values[0], "Args"}}
		}},
	{Name: "clause", Inner2: map[int]string{1: "case 2, 3:\n\t\t// id1\n\t\t// ie1", 2: "default:\nb() // it2\n// id2\nc()"}, Files: []string{"package p\n\nfunc f() {\nswitch v {\n%A%\n}\nswitch w {\n%B%\n}\n}\n"},
		A: [][2]string{{"case 1:\na()", "case /*i0*/ 1:\na()"}, {"case 2, 3:", "case 2, /*i1*/ 3:"}, {"default:\nb()\nc()", "default:\nb( /*i2*/ )\nc()"}},
		B: [][2]string{{"case 7:\nx()", "case /*i3*/ 7:\nx()"}, {"case 8:", "case /*i4*/ 8:"}},
		Locate: func(fs []*dst.File) [2]listRef {
			return [2]listRef{{nth(fs[0], "SwitchStmt", 0).(*dst.SwitchStmt).Body, "List"}, {nth(fs[0], "SwitchStmt", 1).(*dst.SwitchStmt).Body, "List"}}
		}},
	{Name: "commclause", Inner2: map[int]string{1: "case <-b:\n\t\t// id1\n\t\t// ie1", 2: "default:\nb() // it2\n// id2\nc()"}, Files: []string{"package p\n\nfunc f() {\nselect {\n%A%\n}\nselect {\n%B%\n}\n}\n"},
		A: [][2]string{{"case <-a:\na()", "case <- /*i0*/ a:\na()"}, {"case <-b:", "case <- /*i1*/ b:"}, {"default:\nb()\nc()", "default:\nb( /*i2*/ )\nc()"}},
		B: [][2]string{{"case v := <-x:\n_ = v", "case v := /*i3*/ <-x:\n_ = v"}, {"case y <- 1:", "case y <- /*i4*/ 1:"}},
		Locate: func(fs []*dst.File) [2]listRef {
			return [2]listRef{{nth(fs[0], "SelectStmt", 0).(*dst.SelectStmt).Body, "List"}, {nth(fs[0], "SelectStmt", 1).(*dst.SelectStmt).Body, "List"}}
		}},
	{Name: "import", Files: []string{"package p\n\nimport (\n%A%\n)\n\nimport (\n%B%\n)\n"},
		A: [][2]string{{"\"a\"", "/*i0*/ \"a\""}, {"b \"b\"", "b /*i1*/ \"b\""}, {"_ \"c\"", "_ /*i2*/ \"c\""}},
		B: [][2]string{{"\"x\"", "/*i3*/ \"x\""}, {"y \"y\"", "y /*i4*/ \"y\""}},
		Locate: func(fs []*dst.File) [2]listRef {
			return [2]listRef{{fs[0].Decls[0], "Specs"}, {fs[0].Decls[1], "Specs"}}
		}},
}

// comment configurations per element
const (
	cfgNone = iota
	cfgLead1
	cfgLead2
	cfgTrail
	cfgLeadTrail
	cfgInner
	cfgInner2
	nCfg
)

type c02Case struct {
	Kind  int    `json:"kind"`
	Cfg   [5]int `json:"cfg"` // comment configuration of elements A0 A1 A2 B0 B1
	Sep   int    `json:"sep"` // 0 newline, 1 blank line, 2 inline
	Hist  []int  `json:"hist"`
	HistS string `json:"hist_s,omitempty"`
	KindS string `json:"kind_s,omitempty"`
}

// chunk renders element e (0..4) as text.
func (k *c02Kind) chunk(e int, cfg int, sep int) string {
	var el [2]string
	if e < 3 {
		el = k.A[e]
	} else {
		el = k.B[e-3]
	}
	text := el[0]
	if cfg == cfgInner {
		text = el[1]
	}
	if cfg == cfgInner2 {
		// elements without a second inner layout use their first one
		if t, ok := k.Inner2[e]; ok {
			text = t
		} else {
			text = el[1]
		}
	}
	if sep == 2 { // inline: block comments only
		s := text
		if cfg == cfgLead1 || cfg == cfgLead2 || cfg == cfgLeadTrail {
			s = fmt.Sprintf("/*k%da*/ ", e) + s
		}
		if cfg == cfgLead2 {
			s = fmt.Sprintf("/*k%db*/ ", e) + s
		}
		if cfg == cfgTrail || cfg == cfgLeadTrail {
			s += fmt.Sprintf(" /*t%d*/", e)
		}
		return s
	}
	var b strings.Builder
	if cfg == cfgLead1 || cfg == cfgLead2 || cfg == cfgLeadTrail {
		fmt.Fprintf(&b, "// k%da\n", e)
	}
	if cfg == cfgLead2 {
		fmt.Fprintf(&b, "// k%db\n", e)
	}
	b.WriteString(text + k.Term)
	if cfg == cfgTrail || cfg == cfgLeadTrail {
		fmt.Fprintf(&b, " // t%d", e)
	}
	return b.String()
}

// render builds the file texts for the given arrangement of element ids.
func (k *c02Kind) render(cs c02Case, lists [2][]int) []string {
	var joined [2]string
	for li, l := range lists {
		var chunks []string
		for _, e := range l {
			chunks = append(chunks, k.chunk(e, cs.Cfg[e], cs.Sep))
		}
		switch cs.Sep {
		case 0:
			joined[li] = strings.Join(chunks, "\n")
		case 1:
			joined[li] = strings.Join(chunks, "\n\n")
		case 2:
			joined[li] = strings.Join(chunks, ", ")
		}
	}
	var out []string
	for _, f := range k.Files {
		s := strings.ReplaceAll(strings.ReplaceAll(f, "%A%", joined[0]), "%B%", joined[1])
		if cs.Sep == 2 {
			// inline: the list sits on the line of its delimiters
			s = strings.ReplaceAll(strings.ReplaceAll(f, "\n%A%\n", joined[0]), "\n%B%\n", joined[1])
		}
		out = append(out, s)
	}
	return out
}

// ops: the operation alphabet over two lists with up to c02Max elements each.
const c02Max = 6

type c02Op struct {
	Kind    string
	L, I, J int
}

var c02Ops = func() []c02Op {
	var ops []c02Op
	for l := 0; l < 2; l++ {
		for i := 0; i < c02Max; i++ {
			if i+1 < c02Max {
				ops = append(ops, c02Op{"swap", l, i, 0})
			}
			ops = append(ops, c02Op{"delete", l, i, 0}, c02Op{"dup-after", l, i, 0}, c02Op{"dup-end", l, i, 0})
			for j := 0; j <= c02Max; j++ {
				ops = append(ops, c02Op{"move", l, i, j})
			}
		}
	}
	return ops
}()

func (o c02Op) String() string {
	if o.Kind == "move" {
		return fmt.Sprintf("move(%c[%d]->%c@%d)", 'A'+o.L, o.I, 'A'+1-o.L, o.J)
	}
	return fmt.Sprintf("%s(%c[%d])", o.Kind, 'A'+o.L, o.I)
}

// applyModel applies op to the id lists; ok=false if the op is not enabled in this state.
func (o c02Op) applyModel(lists [2][]int) ([2][]int, bool) {
	a := append([]int{}, lists[o.L]...)
	b := append([]int{}, lists[1-o.L]...)
	if o.I >= len(a) {
		return lists, false
	}
	switch o.Kind {
	case "swap":
		if o.I+1 >= len(a) {
			return lists, false
		}
		a[o.I], a[o.I+1] = a[o.I+1], a[o.I]
	case "delete":
		if len(a) == 1 {
			return lists, false // an empty list has no chunks; '{}' versus '{\n}' is not this property's business
		}
		a = append(a[:o.I], a[o.I+1:]...)
	case "dup-after":
		if len(a) >= c02Max {
			return lists, false
		}
		a = append(a[:o.I+1], append([]int{a[o.I]}, a[o.I+1:]...)...)
	case "dup-end":
		if len(a) >= c02Max {
			return lists, false
		}
		a = append(a, a[o.I])
	case "move":
		if o.J > len(b) || len(b) >= c02Max || len(a) == 1 {
			return lists, false
		}
		e := a[o.I]
		a = append(a[:o.I], a[o.I+1:]...)
		b = append(b[:o.J], append([]int{e}, b[o.J:]...)...)
	}
	var out [2][]int
	out[o.L], out[1-o.L] = a, b
	return out, true
}

// applyReal applies op to the real lists.
func (o c02Op) applyReal(refs [2]listRef) {
	a := refs[o.L].All()
	b := refs[1-o.L].All()
	switch o.Kind {
	case "swap":
		a[o.I], a[o.I+1] = a[o.I+1], a[o.I]
	case "delete":
		a = append(a[:o.I:o.I], a[o.I+1:]...)
	case "dup-after":
		c := dst.Clone(a[o.I])
		a = append(a[:o.I+1:o.I+1], append([]dst.Node{c}, a[o.I+1:]...)...)
	case "dup-end":
		a = append(a, dst.Clone(a[o.I]))
	case "move":
		e := a[o.I]
		a = append(a[:o.I:o.I], a[o.I+1:]...)
		b = append(b[:o.J:o.J], append([]dst.Node{e}, b[o.J:]...)...)
	}
	refs[o.L].Set(a)
	refs[1-o.L].Set(b)
}

func init() {
	core.Register(&core.Prop{
		ID:    "C02",
		Level: "model_checking",
		Rule: "10 list kinds (select clauses included; a clause whose body holds only comment lines among the inner layouts) x two lists (3+2 elements of different shapes) x comment layouts (7 configurations per element: none, 1 or 2 leading lines, trailing, leading+trailing, inner, inner nested list with trailing + dangling comment) x separator {newline, blank line, inline}; " +
			"layouts whose elements do not all carry the same (Before, After) are outside the quantifier (counted); explicit-state BFS from the identity arrangement over swap/delete/duplicate-with-Clone (after, at end)/move-to-other-list (single deletions and duplications also made through dstutil.Apply cursors, which must give the same tree), " +
			"depth 1 on all layouts and depth 2 on 49 per kind (quick); depth 2 on all layouts and depth 3 on the 7 uniform ones per kind (thorough); successor = fresh parse + replay; oracle: print (plain, and by a Restorer with Extras) == gofmt(text whose chunks were edited the same way); equal arrangements reached by different histories print equally; " +
			"state = (kind, layout, arrangement of element ids); non-trivial = arrangement differing from the identity with at least one comment",
		Assumptions: []string{"a chunk = element + its directly preceding comment lines + its trailing same-line comment", "go/format normalises both sides"},
		Units: func(tier string) []string {
			var u []string
			for _, k := range c02Kinds {
				for c0 := 0; c0 < nCfg; c0++ {
					u = append(u, fmt.Sprintf("%s/cfgA0=%d", k.Name, c0))
				}
			}
			return u
		},
		Run: runC02,
		Check: func(c core.Case) core.Outcome {
			var cs c02Case
			if err := json.Unmarshal(c, &cs); err != nil {
				panic(err)
			}
			o, _, _ := c02Exec(cs)
			return o
		},
	})
}

func runC02(ctx *core.Ctx, unit int) {
	ki, c0 := unit/nCfg, unit%nCfg
	k := &c02Kinds[ki]
	seps := []int{0, 1}
	if k.Inline {
		seps = append(seps, 2)
	}
	for c1 := 0; c1 < nCfg; c1++ {
		for c2 := 0; c2 < nCfg; c2++ {
			for _, sep := range seps {
				cfg := [5]int{c0, c1, c2, c1, c0}
				base := c02Case{Kind: ki, Cfg: cfg, Sep: sep}
				if !c02LayoutInScope(k, cfg, sep) {
					ctx.Count("excluded: layout outside the chunk definition (inline leading comment / comment inside an import spec)", 1)
					continue
				}
				o, _, uniform := c02Exec(base)
				if !o.OK && o.Key == "" {
					ctx.Count("excluded: layout text does not parse / inner comment not expressible", 1)
					continue
				}
				if !uniform {
					ctx.Count("excluded: elements do not carry uniform (Before, After)", 1)
					continue
				}
				if !o.OK && strings.HasPrefix(o.Key, "known-layout:") {
					// the unedited layout itself falls under one of C01's known layout findings
					ctx.Count("excluded: unedited layout is a known C01 layout finding ("+strings.TrimPrefix(o.Key, "known-layout:")+")", 1)
					continue
				}
				ctx.Count(fmt.Sprintf("layouts explored: %s sep=%d", k.Name, sep), 1)
				depth := 1
				if c2 == c0 {
					depth = 2
				}
				if ctx.Thorough() {
					depth = 2
					if c1 == c0 && c2 == c0 {
						depth = 3
					}
				}
				outputs := map[string]string{}
				b := &explore.BFS{MaxDepth: depth, NOps: len(c02Ops), Stop: ctx.Expired, Root: -1}
				b.Run(func(hist []int) (string, bool) {
					cs := base
					cs.Hist = hist
					o, key, _ := c02Exec(cs)
					if key == "" && o.OK {
						return "", false // op not enabled
					}
					cs.KindS = k.Name
					cs.HistS = c02HistString(hist)
					ctx.Eval(cs, o)
					if !o.OK {
						return "", false
					}
					ctx.State(fmt.Sprintf("%d|%v|%d|%s", ki, cfg, sep, key), len(hist) > 0 && cfg != [5]int{})
					if len(hist) == 2 && c1 == 1 {
						ctx.Sample(cs)
					}
					_ = outputs
					return key, true
				})
				ctx.R.Transitions += b.Transitions
				ctx.Max("depth", float64(b.Depth))
				if b.Cut {
					ctx.Cut("BFS cut")
					return
				}
			}
		}
	}
}

// c02LayoutInScope: in the inline layout a comment before an element sits on the line of the previous
// element and is that element's trailing same-line comment by the property's own chunk definition, so
// only trailing/inner comments are well-defined there; comments inside an import spec are moved to the
// end of the spec by gofmt's import sorting (format.Node), which is not dst's doing.
func c02LayoutInScope(k *c02Kind, cfg [5]int, sep int) bool {
	inner2, inner2Defined := false, false
	for e, c := range cfg {
		if c == cfgInner2 {
			inner2 = true
			if _, ok := k.Inner2[e]; ok {
				inner2Defined = true
			}
			if sep == 2 || k.Name == "import" {
				return false
			}
		}
		if sep == 2 && (c == cfgLead1 || c == cfgLead2 || c == cfgLeadTrail) {
			return false
		}
		if k.Name == "import" && c == cfgInner {
			return false
		}
	}
	if inner2 && !inner2Defined {
		return false // would repeat the layout with the first inner form
	}
	return true
}

func c02HistString(hist []int) string {
	var s []string
	for _, h := range hist {
		s = append(s, c02Ops[h].String())
	}
	return strings.Join(s, "; ")
}

// c02Exec builds the layout on fresh real trees, replays the history on tree and model and compares.
// key = arrangement reached ("" if some op is not enabled); uniform reports the precondition.
func c02Exec(cs c02Case) (out core.Outcome, key string, uniform bool) {
	k := &c02Kinds[cs.Kind]
	fail := func(kk, f string, a ...interface{}) (core.Outcome, string, bool) {
		return core.Outcome{Key: kk, Desc: fmt.Sprintf("kind=%s cfg=%v sep=%d history: %s\n", k.Name, cs.Cfg, cs.Sep, c02HistString(cs.Hist)) + fmt.Sprintf(f, a...)}, "x", true
	}
	lists := [2][]int{{0, 1, 2}, {3, 4}}
	// initial texts, canonicalised
	var files []*dst.File
	var srcs []string
	for _, raw := range k.render(cs, lists) {
		src, err := gofmt(raw)
		if err != nil {
			return core.Outcome{}, "", false // layout not expressible
		}
		srcs = append(srcs, src)
		f, err := decorator.Parse(src)
		if err != nil {
			return core.Outcome{}, "", false
		}
		files = append(files, f)
	}
	refs := k.Locate(files)
	if refs[0].Len() != 3 || refs[1].Len() != 2 {
		return fail("engine:locate", "located lists have %d and %d elements", refs[0].Len(), refs[1].Len())
	}
	// precondition ("uniform separators"): whichever two elements become neighbours, the spacing between
	// them (non-additive: the larger of the first's After and the second's Before) is the layout's
	// separator; otherwise the chunk model's separator is ambiguous at that adjacency
	uniform = true
	sepSpace := dst.SpaceType(cs.Sep + 1)
	if cs.Sep == 2 {
		sepSpace = dst.None
	}
	var elems []dst.Node
	for _, r := range refs {
		elems = append(elems, r.All()...)
	}
	for _, x := range elems {
		for _, y := range elems {
			sp := x.Decorations().After
			if b := y.Decorations().Before; b > sp {
				sp = b
			}
			if sp != sepSpace {
				uniform = false
			}
		}
	}
	if !uniform {
		return core.Outcome{OK: true}, "", false
	}
	for _, h := range cs.Hist {
		op := c02Ops[h]
		if k.Name == "import" && strings.HasPrefix(op.Kind, "dup") {
			return core.Outcome{OK: true}, "", true // gofmt's import sorting removes duplicate import specs
		}
		var ok bool
		lists, ok = op.applyModel(lists)
		if !ok {
			return core.Outcome{OK: true}, "", true
		}
		if p := guard(func() { op.applyReal(refs) }); p != "" {
			return fail("panic-in-edit", "%s: %s", op, p)
		}
	}
	// the same single edit made through dstutil.Apply (the cursor's Delete / InsertAfter in the post callback, the pre
	// callback declining to descend into the element's children) must give the tree the direct slice edit gives
	if len(cs.Hist) == 1 {
		if op := c02Ops[cs.Hist[0]]; op.Kind == "delete" || op.Kind == "dup-after" {
			var files2 []*dst.File
			for _, src := range srcs {
				f2, err := decorator.Parse(src)
				if err != nil {
					panic(err)
				}
				files2 = append(files2, f2)
			}
			target := k.Locate(files2)[op.L].All()[op.I]
			if p := guard(func() {
				for _, f2 := range files2 {
					dstutil.Apply(f2, func(c *dstutil.Cursor) bool { return c.Parent() != target }, func(c *dstutil.Cursor) bool {
						if c.Node() == target {
							if op.Kind == "delete" {
								c.Delete()
							} else {
								c.InsertAfter(dst.Clone(target))
							}
						}
						return true
					})
				}
			}); p != "" {
				return fail("panic-in-edit-through-apply", "%s: %s", op, p)
			}
			for i := range files {
				direct, derr := printFile(files[i])
				via, verr := printFile(files2[i])
				if derr == nil && (verr != nil || via != direct) {
					return fail("edit-through-apply-differs:"+k.Name, "file %d: %s made through dstutil.Apply (post callback, children of the element pruned in pre) gives another tree than the direct slice edit (error %v)\n%s", i, op, verr, diffDesc(direct, via))
				}
			}
		}
	}
	key = fmt.Sprint(lists)
	want := k.render(cs, lists)
	for i, f := range files {
		w, err := gofmt(want[i])
		if err != nil {
			return fail("engine:model-text-does-not-parse", "%v\n%s", err, want[i])
		}
		var got string
		var differs string
		if p := guard(func() { got, err, differs = printFileBoth(f) }); p != "" {
			return fail("print-panic:"+short(p, 60), "printing the edited tree panicked: %s", p)
		}
		if err != nil {
			return fail("print-error", "%v", err)
		}
		if differs != "" {
			return fail("print-depends-on-fileset-position", "%s", differs)
		}
		// the same tree printed by a Restorer with Extras must not differ (objects of deleted or cloned
		// elements still point at their old declarations)
		if got == w {
			var xerr error
			var buf2 bytes.Buffer
			ex2 := decorator.NewRestorer()
			ex2.Extras = true
			if p := guard(func() { xerr = ex2.Fprint(&buf2, f) }); p != "" {
				return fail("extras-print-panic", "printing the edited tree with Extras panicked: %s", p)
			}
			if xerr == nil && buf2.String() != w {
				return fail("extras-print-differs:"+k.Name, "file %d: the edited tree printed with Restorer.Extras differs\n%s", i, diffDesc(w, buf2.String()))
			}
		}
		if got != w {
			if len(cs.Hist) == 0 {
				// known C01 findings are attributed through C01's own signatures and need C01's list
				if c01FindingIDs == nil {
					c01FindingIDs = core.KnownOf("C01")
				}
				for _, f := range c01FindingIDs {
					core.KnownActive[f] = true
				}
				id := layoutKnown(w, got)
				for _, f := range c01FindingIDs {
					delete(core.KnownActive, f)
				}
				if id != "" {
					listed := true
					for _, part := range strings.Split(id, "+") {
						if !core.KnownInput("C02", part, w) {
							listed = false
						}
					}
					if listed {
						return core.Outcome{Key: "known-layout:" + id}, "x", true
					}
				}
			}
			return fail("edited-print-differs:"+k.Name+":"+c01Class(w, got), "file %d: print of the edited tree differs from gofmt of the text whose chunks were edited the same way\n%s", i, diffDesc(w, got))
		}
	}
	return core.Outcome{OK: true}, key, true
}

// ids of C01's listed layout findings (known_findings.json), whose signatures C02 reuses
var c01FindingIDs []string
