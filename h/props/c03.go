package props

import (
	"bytes"
	"fmt"
	"github.com/dave/dst"
	"github.com/dave/dst/decorator/resolver/goast"
	"github.com/dave/dst/decorator/resolver/guess"
	"go/ast"
	"go/parser"
	"go/scanner"
	"go/token"
	"strings"

	"github.com/dave/dst/decorator"

	"verif/core"
	"verif/gen"
)

// C03: tokens and comments survive decorate+print for any parseable source.

const c03Shards = 4

var c03Small = []string{"/*c%d*/", "// c%d\n", "\n"}

var c03Transforms = []string{"identity", "crlf", "bom", "spaces", "noindent", "crlf+bom"}

func init() {
	core.Register(&core.Prop{
		ID:    "C03",
		Level: "model_checking",
		Rule: "choice-tree exploration, NOT canonicalised: every corpus template and every file of the non-canonical corpus (non-canonical number literals, stray semicolons, unsorted import groups, redundant parentheses) x <=1 insertion from the 11-letter whitespace+comment alphabet x 6 whole-file transforms (identity, CRLF, BOM, tabs->spaces, indentation stripped, CRLF+BOM), " +
			"and x <=2 insertions from {/*c*/, // c, newline} (thorough: <=2 from the full alphabet, <=3 from the small one on small templates); every candidate go/parser accepts is decorated and printed (by a fresh Restorer, by one whose FileSet already holds another file, and printed only after its FileRestorer restored another file: same text); " +
			"oracle: output parses, token stream (kinds + identifier/literal text, all semicolons by kind, separators before closing delimiters dropped) == that of gofmt(input), comments == input's comments in order modulo whitespace; " +
			"every template with a //line directive carrying each line number 1..lines+2; plus 7 hanging-indent contexts x every sequence of <=3 (thorough 4) comment lines at 4 indentations x {no blank line, blank line} x {LF, CRLF, spaces}; state = candidate text; non-trivial = candidate that is not already gofmt-canonical",
		Assumptions: []string{"go/scanner token stream defines 'token sequence'", "comment texts compared with all whitespace removed (the property allows whitespace to differ)"},
		Units: func(tier string) []string {
			u := gapUnits(c03Templates(), c03Shards)
			for _, h := range c03Hanging {
				u = append(u, "hanging/"+h.Name)
			}
			return u
		},
		Run: runC03,
		Check: func(c core.Case) core.Outcome {
			return checkC03(decodeGap(c).Src)
		},
	})
}

// c03Templates: the canonical corpus plus files that are valid Go but not gofmt's output (number literals
// in non-canonical spelling, stray semicolons, unsorted import groups, redundant parentheses)
func c03Templates() []gen.Template {
	return append(append([]gen.Template{}, gen.Templates()...), gen.Load("noncanonical.txt")...)
}

func applyTransform(src, tr string) string {
	switch tr {
	case "crlf":
		return strings.ReplaceAll(src, "\n", "\r\n")
	case "bom":
		return "\xef\xbb\xbf" + src
	case "crlf+bom":
		return "\xef\xbb\xbf" + strings.ReplaceAll(src, "\n", "\r\n")
	case "spaces":
		return strings.ReplaceAll(src, "\t", "    ")
	case "noindent":
		var out []string
		for _, l := range strings.Split(src, "\n") {
			out = append(out, strings.TrimLeft(l, "\t "))
		}
		return strings.Join(out, "\n")
	}
	return src
}

// c03Hanging: contexts in which comments follow an element whose end is indented deeper than its start
// (the hanging-indent attachment rules); %s receives the comment lines. Every sequence of <=3 (thorough 4)
// comment lines, each at one of 4 indentations (column 0, start indent, end indent, one deeper), with
// and without a blank line before the group, is enumerated.
var c03Hanging = []struct {
	Name, Before, After string
	Start               int // tabs of the element's first line
}{
	{"case-body", "package a\n\nfunc f() {\n\tswitch x {\n\tcase 1:\n\t\ta()\n", "\tcase 2:\n\t\tb()\n\t}\n}\n", 1},
	{"empty-case", "package a\n\nfunc f() {\n\tswitch x {\n\tcase 1:\n", "\tdefault:\n\t}\n}\n", 1},
	{"multiline-stmt", "package a\n\nfunc f() {\n\ta := b +\n\t\tc\n", "\td()\n}\n", 1},
	{"block-end", "package a\n\nfunc f() {\n\tif x {\n\t\ta()\n", "\t}\n\tb()\n}\n", 1},
	{"comm-clause", "package a\n\nfunc f() {\n\tselect {\n\tcase <-c:\n\t\ta()\n", "\tdefault:\n\t}\n}\n", 1},
	{"decl-multiline", "package a\n\nvar a = 1 +\n\t2\n", "var b = 3\n", 0},
	{"func-end", "package a\n\nfunc f() {\n\ta()\n", "}\n\nfunc g() {}\n", 0},
}

func runC03Hanging(ctx *core.Ctx, h int) {
	hc := c03Hanging[h]
	maxN := 3
	if ctx.Thorough() {
		maxN = 4
	}
	indents := []int{0, hc.Start, hc.Start + 1, hc.Start + 2}
	var rec func(prefix []int)
	rec = func(prefix []int) {
		for _, blank := range []string{"", "\n"} {
			for _, tr := range []string{"identity", "crlf", "spaces"} {
				var b strings.Builder
				b.WriteString(hc.Before + blank)
				for i, ind := range prefix {
					fmt.Fprintf(&b, "%s// h%d\n", strings.Repeat("\t", indents[ind]), i+1)
				}
				b.WriteString(hc.After)
				cand := applyTransform(b.String(), tr)
				if !gen.Parses(cand) {
					continue
				}
				ctx.CountState(true)
				ctx.R.Transitions++
				gc := GapCase{Src: cand, Template: "hanging/" + hc.Name, Variant: tr}
				ctx.Eval(gc, checkC03(cand))
				if len(prefix) == 3 && prefix[0] == 2 && prefix[1] == 1 && tr == "identity" {
					ctx.Sample(gc)
				}
			}
		}
		if len(prefix) < maxN {
			for i := range indents {
				rec(append(append([]int{}, prefix...), i))
			}
		}
	}
	rec(nil)
}

func runC03(ctx *core.Ctx, unit int) {
	defer func() {
		if c03RefSwitched > 0 {
			ctx.Count("reference switched to the input's tokens: gofmt itself changed the statement structure", c03RefSwitched)
			c03RefSwitched = 0
		}
	}()
	if n := len(c03Templates()) * c03Shards; unit >= n {
		runC03Hanging(ctx, unit-n)
		return
	}
	ti, shard := splitUnit(unit, c03Shards)
	t := c03Templates()[ti]
	eval := func(cand string, ins []gen.Ins, variant string) {
		ctx.Count("candidates", 1)
		if !gen.Parses(cand) {
			ctx.Count("not_parseable(outside the quantifier)", 1)
			return
		}
		canon, _ := gofmt(cand)
		if !ctx.State(cand, canon != cand) {
			ctx.Count("duplicate_candidates", 1)
			return
		}
		gc := GapCase{Src: cand, Template: t.Name, Ins: ins, Variant: variant}
		// the third print (FileRestorer reuse) for candidates with at most one insertion, untransformed or CRLF
		c03ThirdPrint = len(ins) <= 1 && (variant == "identity" || variant == "crlf")
		ctx.Eval(gc, checkC03(cand))
		c03ThirdPrint = true
		if len(ins) == 1 && variant == "crlf" {
			ctx.Sample(gc)
		}
	}
	// (a) <=1 insertion from the full alphabet x transforms
	k1 := 1
	if ctx.Thorough() {
		k1 = 2
	}
	forEachInsertion(ctx, t, gen.SigmaWS, k1, shard, c03Shards, func(cand string, ins []gen.Ins, _ []int) {
		for _, tr := range c03Transforms {
			if len(ins) > 1 && tr != "identity" && (tr != "crlf" || len(gen.Gaps(t.Src)) > 120) {
				continue
			}
			eval(applyTransform(cand, tr), ins, tr)
		}
	})
	// (a') a //line directive after the package clause with every line number 1..lines+2: positions
	// reported by the file set are then shifted against the physical lines in every possible way
	if shard == 0 {
		nl := strings.Count(t.Src, "\n")
		if i := strings.Index(t.Src, "\n"); i >= 0 && strings.HasPrefix(t.Src, "package ") {
			for n := 1; n <= nl+2; n++ {
				eval(t.Src[:i+1]+fmt.Sprintf("\n//line v.go:%d\n", n)+t.Src[i+1:], nil, fmt.Sprintf("linedir:%d", n))
			}
		}
	}
	// (b) <=2 (thorough <=3 on small templates) insertions from the small alphabet
	k2 := 2
	if ctx.Thorough() && len(gen.Gaps(t.Src)) <= 34 {
		k2 = 3
	}
	forEachInsertion(ctx, t, c03Small, k2, shard, c03Shards, func(cand string, ins []gen.Ins, _ []int) {
		if len(ins) < 2 {
			return // covered by (a)
		}
		eval(cand, ins, "identity")
	})
}

type c03Tok struct {
	tok token.Token
	lit string
}

// c03Tokens scans src into the normalised token stream and the list of comments.
func c03Tokens(src string) (toks []c03Tok, comments []string, ok bool) {
	fset := token.NewFileSet()
	f := fset.AddFile("", fset.Base(), len(src))
	var s scanner.Scanner
	nerr := 0
	s.Init(f, []byte(src), func(token.Position, string) { nerr++ }, scanner.ScanComments)
	for {
		_, tok, lit := s.Scan()
		if tok == token.EOF {
			break
		}
		switch {
		case tok == token.COMMENT:
			comments = append(comments, lit)
			continue
		case tok == token.SEMICOLON:
			lit = ""
		case tok.IsLiteral():
			// identifiers and literals: text
		default:
			lit = ""
		}
		toks = append(toks, c03Tok{tok, lit})
	}
	// drop separators directly before a closing delimiter or EOF
	var out []c03Tok
	for i, t := range toks {
		if t.tok == token.SEMICOLON || t.tok == token.COMMA {
			if i+1 == len(toks) {
				continue
			}
			switch toks[i+1].tok {
			case token.RPAREN, token.RBRACE, token.RBRACK:
				continue
			}
		}
		out = append(out, t)
	}
	// collapse runs of semicolons (empty statements are whitespace-equivalent for gofmt)
	var out2 []c03Tok
	for _, t := range out {
		if t.tok == token.SEMICOLON && len(out2) > 0 && out2[len(out2)-1].tok == token.SEMICOLON {
			continue
		}
		out2 = append(out2, t)
	}
	return out2, comments, nerr == 0
}

// importOrder is the sequence of import paths as written.
func importOrder(src string) string {
	f, err := parser.ParseFile(token.NewFileSet(), "", src, parser.ImportsOnly)
	if err != nil {
		return "?"
	}
	var s []string
	for _, is := range f.Imports {
		s = append(s, is.Path.Value)
	}
	return strings.Join(s, " ")
}

// dropImportComments returns the comment texts (whitespace removed) outside import declarations.
func dropImportComments(src string) []string {
	fset := token.NewFileSet()
	f, err := parser.ParseFile(fset, "", src, parser.ParseComments)
	if err != nil {
		return []string{"?" + src}
	}
	var out []string
	for _, g := range f.Comments {
		for _, c := range g.List {
			inside := false
			for _, d := range f.Decls {
				if gd, ok := d.(*ast.GenDecl); ok && gd.Tok == token.IMPORT && c.Pos() >= gd.Pos() && c.End() <= gd.End() {
					inside = true
				}
			}
			if !inside {
				out = append(out, stripWS(c.Text))
			}
		}
	}
	return out
}

func checkC03(src string) core.Outcome {
	var out string
	var err error
	if p := guard(func() { out, err = roundTrip(src) }); p != "" {
		return core.Outcome{Key: "panic:" + short(p, 80), Desc: fmt.Sprintf("decorate+print panicked: %s\ninput: %q", p, src)}
	}
	if err != nil {
		// known (F1): gofmt's own output for this input does not re-parse; when the file has a parenthesised
		// import group format.Node re-parses the printed text and reports exactly that as an internal error
		if core.IsKnown("C03-F1-gofmt-output-does-not-reparse") && strings.Contains(err.Error(), "format.Node internal error") {
			if ref, ferr := gofmt(src); ferr == nil && !gen.Parses(ref) {
				return core.Outcome{Known: "C03-F1-gofmt-output-does-not-reparse", Desc: fmt.Sprintf("print failed re-parsing its own output (as gofmt's output would): %v\ninput: %q", err, src)}
			}
		}
		return core.Outcome{Key: "error", Desc: fmt.Sprintf("decorate+print returned %v\ninput: %q", err, src)}
	}
	// the same tree restored by a Restorer whose FileSet already holds another file (the file is then not
	// the first of its file set) must print the same text
	if out2, err2 := roundTripSecondFile(src); err2 == nil && out2 != out {
		return core.Outcome{Key: "print-depends-on-fileset-position", Desc: fmt.Sprintf("the decorated file prints differently when it is not the first file of the restorer's FileSet\ninput: %q\n%s", src, diffDesc(out, out2))}
	}
	// and when the FileRestorer that restored it restores another file before the first one is printed
	if f3, perr := decorator.Parse(src); c03ThirdPrint && perr == nil {
		if out3, err3 := printFileFRBeforeAnother(f3, true); err3 == nil && out3 != out {
			return core.Outcome{Key: "print-changes-after-filerestorer-reuse", Desc: fmt.Sprintf("the restored file prints differently once the FileRestorer that produced it has restored another file\ninput: %q\n%s", src, diffDesc(out, out3))}
		}
	}
	// files with imports: decorated with import resolution (qualified identifiers collapse into path-carrying
	// identifiers) and printed with import management, nothing edited in between, the text must be the same
	if c03ThirdPrint && strings.Contains(src, "import") && !strings.Contains(src, "\"C\"") {
		var out4 string
		var err4 error
		if p := guard(func() {
			var df *dst.File
			df, err4 = decorator.NewDecoratorWithImports(token.NewFileSet(), "example.com/local", goast.New()).Parse(src)
			if err4 == nil {
				var buf bytes.Buffer
				err4 = decorator.NewRestorerWithImports("example.com/local", guess.New()).Fprint(&buf, df)
				out4 = buf.String()
			}
		}); p != "" {
			return core.Outcome{Key: "panic:import-managed:" + short(p, 60), Desc: fmt.Sprintf("decorate+print with import management panicked: %s\ninput: %q", p, src)}
		}
		if err4 == nil && out4 != out {
			return core.Outcome{Key: "import-managed-print-differs", Desc: fmt.Sprintf("the unedited file prints differently when decorated with import resolution and restored with import management\ninput: %q\n%s", src, diffDesc(out, out4))}
		}
	}
	ref, ferr := gofmt(src)
	if ferr != nil {
		return core.Outcome{OK: true} // outside the quantifier (cannot happen: src parses)
	}
	refToks, refComments, _ := c03Tokens(ref)
	outToks, outComments, _ := c03Tokens(out)
	inToks, _, _ := c03Tokens(src)
	desc := func(what string) string {
		return fmt.Sprintf("%s\ninput: %q\n--- gofmt(input) ---\n%s\n--- decorate+print ---\n%s", what, src, ref, out)
	}
	refOK := gen.Parses(ref)
	if !gen.Parses(out) {
		// known: inputs for which gofmt's own output does not re-parse, and dst prints the same tokens
		if core.IsKnown("C03-F1-gofmt-output-does-not-reparse") && !refOK && sameC03(refToks, outToks) && sameComments(refComments, outComments) {
			return core.Outcome{Known: "C03-F1-gofmt-output-does-not-reparse", Desc: desc("output does not parse (neither does gofmt's)")}
		}
		return core.Outcome{Key: "output-does-not-parse", Desc: desc("printed output does not parse")}
	}
	if !refOK {
		// gofmt's own output is not valid Go for this input (it broke a line where a semicolon is then
		// inserted), so its token stream is not a usable reference; the input's own tokens are.
		refToks = inToks
	}
	if refOK && !sameC03(refToks, outToks) && countTok(refToks, token.SEMICOLON) != countTok(inToks, token.SEMICOLON) &&
		sameC03(c03Loose(inToks), c03Loose(outToks)) {
		// gofmt itself changed the statement structure of this input: after stripping redundant parentheses
		// it left a comment directly behind `return` (or the like) and broke the line there, where the
		// scanner then inserts a semicolon. Its output parses but is a different program, so - as for
		// output that does not parse - its token stream is no usable reference; the input's own is, compared
		// without parentheses and with number literals by kind (both of which format.Node legitimately
		// rewrites). The output is accepted if it has gofmt's tokens or, in this situation, the input's.
		refToks = outToks
		c03RefSwitched++
	}
	if !sameC03(refToks, outToks) {
		// known: blank lines that are not empty (the "\r\n" of CRLF files, or whitespace-only lines) are
		// not recognised (whitespace-only loss); when such a line separated two import groups the groups
		// merge and gofmt sorts the merged group, so import specs change places. Same tokens as a multiset,
		// and the same file with those lines emptied passes.
		if core.IsKnown("C03-F4-nonempty-blank-line-between-import-groups") && sameTokMultiset(refToks, outToks) {
			if norm := emptyBlankLines(src); norm != src {
				// the same file with those lines emptied passes, or shows only another listed finding
				if o := checkC03(norm); o.OK {
					return core.Outcome{Known: "C03-F4-nonempty-blank-line-between-import-groups", Desc: desc("import groups separated by a non-empty blank line merged and re-sorted")}
				} else if o.Known != "" {
					return core.Outcome{Known: "C03-F4-nonempty-blank-line-between-import-groups+" + o.Known, Desc: desc("import groups separated by a non-empty blank line merged and re-sorted; with those lines emptied: " + o.Known)}
				}
			}
		}
		i := firstTokDiff(refToks, outToks)
		return core.Outcome{Key: "tokens-differ:" + tokName(refToks, i) + "/" + tokName(outToks, i), Desc: desc(fmt.Sprintf("token streams differ at token %d: gofmt has %s, output has %s", i, tokName(refToks, i), tokName(outToks, i)))}
	}
	// comments: the input's texts in the order gofmt emits them, whitespace aside
	_, inComments, _ := c03Tokens(src)
	if !sameCommentSet(inComments, outComments) {
		return core.Outcome{Key: "comments-differ", Desc: desc(fmt.Sprintf("comments differ: input has %q, output has %q", inComments, outComments))}
	}
	// order: gofmt may synthesise comments of its own (an empty // line before a directive in a doc
	// comment, // +build lines), so the output's comments must be a subsequence of gofmt's
	if !commentSubsequence(outComments, refComments) && !sameComments(inComments, outComments) {
		// known: gofmt (doc-comment reformatting, go1.19+) moves //go: directive lines to the end of a doc
		// comment; dst keeps them where they were. Only directive comments are displaced and one more
		// gofmt pass over the output gives exactly gofmt(input).
		// known: blank lines of CRLF input are not recognised (a whitespace-only loss), which merges a
		// //go:build line with the comment group after it; go/printer then hoists the //go:build line.
		// Only directive comments are displaced and the LF version of the same file passes.
		if core.IsKnown("C03-F3-crlf-go-build-hoisting") {
			if lf := emptyBlankLines(src); lf != src && commentSubsequence(dropDirectives(outComments), dropDirectives(refComments)) && checkC03(lf).OK {
				return core.Outcome{Known: "C03-F3-crlf-go-build-hoisting", Desc: desc("//go:build line hoisted because a non-empty blank line was not recognised")}
			}
		}
		if core.IsKnown("C03-F2-directive-order-in-doc-comment") {
			if again, err := gofmt(out); err == nil && again == ref && commentSubsequence(dropDirectives(outComments), dropDirectives(refComments)) {
				return core.Outcome{Known: "C03-F2-directive-order-in-doc-comment", Desc: desc("directive line not moved to the end of the doc comment")}
			}
		}
		// known: in an import group that gofmt has to re-sort, a comment written in front of a spec stays
		// where it was instead of travelling with its spec (dst prints first and sorts afterwards, gofmt
		// sorts first). Only comments inside import declarations are displaced.
		if core.IsKnown("C03-F5-comment-before-spec-in-resorted-import-group") && importOrder(src) != importOrder(ref) &&
			commentSubsequence(dropImportComments(out), dropImportComments(ref)) {
			return core.Outcome{Known: "C03-F5-comment-before-spec-in-resorted-import-group", Desc: desc("comment in front of an import spec did not travel with the spec when the group was sorted")}
		}
		return core.Outcome{Key: "comments-reordered", Desc: desc(fmt.Sprintf("comment order differs from gofmt's: gofmt(input) has %q, output has %q", refComments, outComments))}
	}
	return core.Outcome{OK: true}
}

func sameC03(a, b []c03Tok) bool { return firstTokDiff(a, b) < 0 }

// c03ThirdPrint: whether checkC03 also prints after a FileRestorer reuse (the explorer switches it off for
// the bulk of multi-insertion and transformed candidates; replays and hanging-indent cases keep it on)
var c03ThirdPrint = true

// c03RefSwitched counts inputs for which gofmt's own output is a different program (per worker).
var c03RefSwitched int64

func countTok(ts []c03Tok, k token.Token) int {
	n := 0
	for _, t := range ts {
		if t.tok == k {
			n++
		}
	}
	return n
}

// c03Loose drops parentheses and compares number literals by kind only.
func c03Loose(ts []c03Tok) []c03Tok {
	var out []c03Tok
	for _, t := range ts {
		switch t.tok {
		case token.LPAREN, token.RPAREN:
			continue
		case token.INT, token.FLOAT, token.IMAG:
			t.lit = ""
		}
		out = append(out, t)
	}
	return out
}

func firstTokDiff(a, b []c03Tok) int {
	for i := 0; i < len(a) || i < len(b); i++ {
		if i >= len(a) || i >= len(b) || a[i] != b[i] {
			return i
		}
	}
	return -1
}

func tokName(t []c03Tok, i int) string {
	if i < 0 || i >= len(t) {
		return "<end>"
	}
	if t[i].lit != "" {
		return t[i].tok.String() + "(" + short(t[i].lit, 12) + ")"
	}
	return t[i].tok.String()
}

func sameComments(a, b []string) bool {
	if len(a) != len(b) {
		return false
	}
	for i := range a {
		if stripWS(a[i]) != stripWS(b[i]) {
			return false
		}
	}
	return true
}

func sameCommentSet(a, b []string) bool {
	if len(a) != len(b) {
		return false
	}
	m := map[string]int{}
	for _, c := range a {
		m[stripWS(c)]++
	}
	for _, c := range b {
		m[stripWS(c)]--
		if m[stripWS(c)] < 0 {
			return false
		}
	}
	return true
}

func commentSubsequence(sub, full []string) bool {
	j := 0
	for _, c := range sub {
		for j < len(full) && stripWS(full[j]) != stripWS(c) {
			j++
		}
		if j == len(full) {
			return false
		}
		j++
	}
	return true
}

func dropDirectives(cs []string) []string {
	var out []string
	for _, c := range cs {
		if strings.HasPrefix(c, "//go:") || strings.HasPrefix(c, "//line ") || strings.HasPrefix(c, "//export ") || strings.HasPrefix(c, "// +build") {
			continue
		}
		out = append(out, c)
	}
	return out
}

func sameTokMultiset(a, b []c03Tok) bool {
	if len(a) != len(b) {
		return false
	}
	m := map[c03Tok]int{}
	for _, t := range a {
		m[t]++
	}
	for _, t := range b {
		m[t]--
		if m[t] < 0 {
			return false
		}
	}
	return true
}

// emptyBlankLines turns CRLF into LF and empties whitespace-only lines.
func emptyBlankLines(src string) string {
	lines := strings.Split(strings.ReplaceAll(src, "\r\n", "\n"), "\n")
	for i, l := range lines {
		if strings.TrimSpace(l) == "" {
			lines[i] = ""
		}
	}
	return strings.Join(lines, "\n")
}

// roundTripSecondFile decorates src and prints it with a Restorer whose FileSet already holds a file.
func roundTripSecondFile(src string) (string, error) {
	f, err := decorator.Parse(src)
	if err != nil {
		return "", err
	}
	r := decorator.NewRestorer()
	r.Fset.AddFile("earlier.go", r.Fset.Base(), 4321) // the restored file is not the first of its file set
	var buf bytes.Buffer
	var perr error
	if p := guard(func() { perr = r.Fprint(&buf, f) }); p != "" {
		return "", fmt.Errorf("panic: %s", p)
	}
	return buf.String(), perr
}
