package props

import (
	"bytes"
	"encoding/json"
	"fmt"
	"go/parser"
	"go/token"
	"os"
	"path/filepath"
	"reflect"
	"regexp"
	"sort"
	"strings"

	"github.com/dave/dst"
	"github.com/dave/dst/decorator"
	"github.com/dave/dst/decorator/resolver/goast"
	"github.com/dave/dst/decorator/resolver/guess"
	"github.com/dave/dst/dstutil"

	"verif/core"
	"verif/gen"
)

// C04: every decoration is rendered exactly once at its documented attachment point.

type c04Case struct {
	Mode string `json:"mode"` // "doc" | "instance" | "helpers"
	// doc: example block index, chosen point names, kind
	Example int      `json:"example,omitempty"`
	Points  []string `json:"points,omitempty"`
	Kind    string   `json:"kind,omitempty"` // block | line | newline
	// instance: template + node index (+ point index, -1 = all points at once)
	Template string `json:"template,omitempty"`
	Node     int    `json:"node,omitempty"`
	Point    int    `json:"point,omitempty"`
	What     string `json:"what,omitempty"`
	// instance, hand-built variant of the parsed tree: the boolean field Flip of node FlipNode is inverted
	// before decorating (only where the undecorated print stays the same, e.g. FuncType.Func of a
	// function declaration's signature)
	Flip     string `json:"flip,omitempty"`
	FlipNode int    `json:"flip_node,omitempty"`
}

var namedComment = regexp.MustCompile(`/\*([A-Za-z]+)\*/`)
var docHeader = regexp.MustCompile(`^// ([A-Za-z]+)(?:\(([0-9]+)\))?$`)

type docExample struct {
	Type     string
	Header   string // "// Type(k)"
	From, To int    // byte range of the block in D
	Names    []string
}

var docSrc string
var docExamples []docExample

func loadDoc() {
	if docSrc != "" {
		return
	}
	b, err := os.ReadFile(filepath.Join(core.Root(), "corpus", "positions.go.txt"))
	if err != nil {
		panic(err)
	}
	docSrc = string(b)
	off := 0
	var cur *docExample
	for _, line := range strings.SplitAfter(docSrc, "\n") {
		t := strings.TrimSpace(line)
		if m := docHeader.FindStringSubmatch(t); m != nil || t == "// --" {
			if cur != nil {
				cur.To = off
				docExamples = append(docExamples, *cur)
				cur = nil
			}
			if m != nil && m[1] != "notest" {
				cur = &docExample{Type: m[1], Header: t, From: off}
			}
		}
		off += len(line)
	}
	if cur != nil {
		cur.To = off
		docExamples = append(docExamples, *cur)
	}
	for i := range docExamples {
		e := &docExamples[i]
		seen := map[string]bool{}
		for _, m := range namedComment.FindAllStringSubmatch(docSrc[e.From:e.To], -1) {
			if !seen[m[1]] {
				seen[m[1]] = true
				e.Names = append(e.Names, m[1])
			}
		}
	}
}

// docText returns D with every named comment removed except those of example ex whose name is in keep.
func docText(ex int, keep map[string]bool) string {
	loadDoc()
	var b strings.Builder
	last := 0
	for _, loc := range namedComment.FindAllStringSubmatchIndex(docSrc, -1) {
		name := docSrc[loc[2]:loc[3]]
		inEx := ex >= 0 && loc[0] >= docExamples[ex].From && loc[0] < docExamples[ex].To
		b.WriteString(docSrc[last:loc[0]])
		if inEx && keep[name] {
			b.WriteString(docSrc[loc[0]:loc[1]])
		}
		last = loc[1]
	}
	b.WriteString(docSrc[last:])
	return b.String()
}

// locateDocNode finds the documented node of example ex in a tree decorated from a text that still
// carries the "// Type(k)" headers: the first node of the type at or after the node carrying the header.
func locateDocNode(f *dst.File, ex docExample) dst.Node {
	armed := false
	var found dst.Node
	dst.Inspect(f, func(n dst.Node) bool {
		if n == nil || found != nil {
			return false
		}
		for _, p := range decPoints(n) {
			for _, d := range *p.List {
				if d == ex.Header {
					armed = true
				}
			}
		}
		if armed && typeName(n) == ex.Type {
			found = n
			return false
		}
		return true
	})
	return found
}

type seqItem struct {
	comment bool
	text    string
}

// tokenCommentSeq scans src into tokens and comments; ',' and ';' (explicit or automatic) are dropped:
// go/printer writes them without consulting positions, so comments are placed relative to the others.
func tokenCommentSeq(src string) []seqItem {
	toks, _ := gen.Tokens(src, true)
	var out []seqItem
	for _, t := range toks {
		switch t.Tok {
		case token.COMMA, token.SEMICOLON:
			continue
		case token.COMMENT:
			out = append(out, seqItem{true, stripWS(t.Lit)})
		default:
			lit := t.Lit
			if lit == "" {
				lit = t.Tok.String()
			}
			out = append(out, seqItem{false, lit})
		}
	}
	return out
}

func seqString(s []seqItem) string {
	var p []string
	for _, it := range s {
		p = append(p, it.text)
	}
	return strings.Join(p, " ")
}

func sameSeq(a, b []seqItem) (int, bool) {
	for i := 0; i < len(a) || i < len(b); i++ {
		if i >= len(a) || i >= len(b) || a[i] != b[i] {
			return i, false
		}
	}
	return 0, true
}

func init() {
	core.Register(&core.Prop{
		ID:    "C04",
		Level: "model_checking",
		Rule: "(a) documented shapes: for each of the 70 worked examples of the attachment-point documentation (snapshot of gendst/data/positions.go), every subset of <=2 (quick) / all subsets (thorough) of the example's points x kind {block, line, newline}, " +
			"placed directly on the documented node's decoration fields of a tree parsed from the comment-free text: the token+comment sequence of the print must equal that of the documentation text with exactly those comments kept (block), " +
			"or each comment exactly once with the token stream unchanged (line, newline); (b) every node instance of the corpus x every point singly, with two block comments, with a block comment followed by a line comment or by a two-line block comment (the first comment must be placed as if alone), and all points at once (block comments): exactly once, token stream unchanged, " +
			"Start directly before the node's first token, End directly after its last, interior points inside and in declaration order; (c) every top-level declaration of 21 object-bearing sources replaced by its Clone or removed, restored with Extras: same output as without Extras (each comment once); (d) helper laws for every node type: dstutil.Decorations lists exactly the reflection-derived points in render order, Decorations() aliases the node's storage; " +
			"state = (example|instance, point set, kind); non-trivial = at least one decoration placed",
		Assumptions: []string{"the worked examples in decorations-types-generated.go (generated from gendst/data/positions.go, snapshotted) are the documentation of the attachment points", "',' and ';' are ignored when locating comments: go/printer emits them without positions"},
		Units: func(tier string) []string {
			loadDoc()
			var u []string
			for i, e := range docExamples {
				u = append(u, fmt.Sprintf("doc/%d:%s", i, e.Header))
			}
			for _, t := range gen.Templates() {
				u = append(u, "instance/"+t.Name)
			}
			return append(u, "helpers", "extras-clone")
		},
		Run: runC04,
		Check: func(c core.Case) core.Outcome {
			var cs c04Case
			if err := json.Unmarshal(c, &cs); err != nil {
				panic(err)
			}
			return c04Check(cs)
		},
	})
}

func runC04(ctx *core.Ctx, unit int) {
	loadDoc()
	if unit < len(docExamples) {
		e := docExamples[unit]
		maxSub := 2
		if ctx.Thorough() {
			maxSub = len(e.Names)
		}
		n := len(e.Names)
		for mask := 0; mask < 1<<n; mask++ {
			var pts []string
			for i := 0; i < n; i++ {
				if mask&(1<<i) != 0 {
					pts = append(pts, e.Names[i])
				}
			}
			if len(pts) > maxSub {
				continue
			}
			for _, kind := range []string{"block", "line", "newline"} {
				if len(pts) == 0 && kind != "block" {
					continue
				}
				cs := c04Case{Mode: "doc", Example: unit, Points: pts, Kind: kind, What: e.Header}
				ctx.CountState(len(pts) > 0)
				ctx.R.Transitions++
				ctx.Eval(cs, c04Check(cs))
				if len(pts) == 2 && kind == "block" {
					ctx.Sample(cs)
				}
			}
		}
		return
	}
	unit -= len(docExamples)
	ts := gen.Templates()
	if unit < len(ts) {
		t := ts[unit]
		f, err := decorator.Parse(t.Src)
		if err != nil {
			panic(err)
		}
		{
			cs := c04Case{Mode: "instance", Template: t.Name, Node: -1, Point: -1, What: "every point of every node"}
			ctx.CountState(true)
			ctx.R.Transitions++
			ctx.Eval(cs, c04Check(cs))
		}
		// hand-built variants: a boolean field inverted where that does not change the undecorated print;
		// all points of the node itself and of its parent must still render at their places
		{
			plain := mustPrint(f)
			nodes := allNodes(f)
			index := map[dst.Node]int{}
			for i, nd := range nodes {
				index[nd] = i
			}
			parentOf := map[dst.Node]dst.Node{}
			for _, s := range allSlots(f) {
				parentOf[s.Get()] = s.Parent
			}
			for ni, nd := range nodes {
				v := reflect.ValueOf(nd).Elem()
				for fi := 0; fi < v.NumField(); fi++ {
					if v.Field(fi).Kind() != reflect.Bool {
						continue
					}
					name := v.Type().Field(fi).Name
					switch typeName(nd) + "." + name {
					case "FuncType.Func", "CompositeLit.Incomplete", "StructType.Incomplete", "InterfaceType.Incomplete", "BlockStmt.RbraceHasNoPos":
						// flags that own no token of their node (FieldList.Opening, GenDecl.Lparen ... decide
						// which node a parenthesis belongs to, so inverting them changes the documented places)
					default:
						continue
					}
					if name == "Func" && !v.Field(fi).Bool() {
						continue // only true -> false: claiming a keyword that is not printed is no hand-built variant
					}
					v.Field(fi).SetBool(!v.Field(fi).Bool())
					out, err := printFile(f)
					v.Field(fi).SetBool(!v.Field(fi).Bool())
					if err != nil || out != plain {
						continue // the flag matters for printing: not a redundant one
					}
					targets := []int{ni}
					if p, ok := parentOf[nd]; ok {
						targets = append(targets, index[p])
					}
					for _, tn := range targets {
						cs := c04Case{Mode: "instance", Template: t.Name, Node: tn, Point: -1, Flip: name, FlipNode: ni, What: typeName(nodes[tn]) + " with " + typeName(nd) + "." + name + " inverted"}
						ctx.CountState(true)
						ctx.R.Transitions++
						ctx.Eval(cs, c04Check(cs))
					}
				}
			}
		}
		for ni, nd := range allNodes(f) {
			pts := decPoints(nd)
			for pi := -1; pi < len(pts); pi++ {
				cs := c04Case{Mode: "instance", Template: t.Name, Node: ni, Point: pi, What: typeName(nd)}
				ctx.CountState(true)
				ctx.R.Transitions++
				ctx.Eval(cs, c04Check(cs))
				if pi >= 0 {
					// two block comments on this point; a block comment followed by a line comment; a block comment
					// followed by a block comment spanning two lines
					for _, v := range []int{1000, 2000, 3000} {
						cs.Point = pi + v
						ctx.CountState(true)
						ctx.R.Transitions++
						ctx.Eval(cs, c04Check(cs))
					}
				}
			}
		}
		ctx.Count("instance: mixed list skipped (the second comment alone already changes tokens or fails to print at that point)", c04MixedSkipped)
		c04MixedSkipped = 0
		return
	}
	if unit == len(ts) {
		cs := c04Case{Mode: "helpers"}
		ctx.CountState(true)
		ctx.Eval(cs, c04Check(cs))
		return
	}
	// every top-level declaration of every object-bearing source replaced by its Clone (identifiers
	// elsewhere keep pointing at the original through Obj.Decl), restored with Extras: every comment
	// still exactly once, output identical to the unedited print
	for _, src := range c04ExtrasSources() {
		f, err := decorator.Parse(src.Src)
		if err != nil {
			panic(err)
		}
		for di := range f.Decls {
			for _, remove := range []bool{false, true} {
				cs := c04Case{Mode: "extras-clone", Template: src.Name, Node: di, What: fmt.Sprint("remove=", remove)}
				if remove {
					cs.Point = 1
				}
				ctx.CountState(true)
				ctx.R.Transitions++
				ctx.Eval(cs, c04Check(cs))
			}
		}
	}
}

func c04ExtrasSources() []gen.Template {
	var out []gen.Template
	for _, t := range c18Templates {
		out = append(out, gen.Template{Name: "c18:" + t.Name, Src: t.Src})
	}
	for _, n := range []string{"comments", "comments2", "methods", "funcs", "typeparams", "generics"} {
		if t, ok := gen.Find(gen.Templates(), n); ok {
			out = append(out, t)
		}
	}
	return out
}

// c04ExtrasClone: declaration cs.Node of the source is replaced by its clone (or removed), every
// declaration carries comments, and the file is restored with Extras.
func c04ExtrasClone(cs c04Case, fail func(string, string, ...interface{}) core.Outcome) core.Outcome {
	var src string
	for _, t := range c04ExtrasSources() {
		if t.Name == cs.Template {
			src = t.Src
		}
	}
	build := func(edit bool) (*dst.File, []string) {
		f, err := decorator.Parse(src)
		if err != nil {
			panic(err)
		}
		var labels []string
		for i, d := range f.Decls {
			l := fmt.Sprintf("// decl %d", i)
			d.Decorations().Start.Prepend(l)
			d.Decorations().End.Append(fmt.Sprintf("/*end %d*/", i))
			labels = append(labels, stripWS(l), fmt.Sprintf("/*end%d*/", i))
		}
		if edit {
			if cs.Point == 1 {
				f.Decls = append(f.Decls[:cs.Node:cs.Node], f.Decls[cs.Node+1:]...)
			} else {
				f.Decls[cs.Node] = dst.Clone(f.Decls[cs.Node]).(dst.Decl)
			}
		}
		return f, labels
	}
	print := func(f *dst.File, extras bool) (string, error) {
		r := decorator.NewRestorer()
		r.Extras = extras
		var buf bytes.Buffer
		err := r.Fprint(&buf, f)
		return buf.String(), err
	}
	ref, _ := build(true)
	want, err := print(ref, false)
	if err != nil {
		return fail("engine:extras-reference", "%v", err)
	}
	f, _ := build(true)
	var got string
	if p := guard(func() { got, err = print(f, true) }); p != "" {
		return fail("extras-panic", "restoring with Extras panicked: %s", p)
	}
	if err != nil {
		return fail("extras-error", "%v", err)
	}
	if got != want {
		return fail("extras-comment-rendering", "with Extras the print differs from the print without Extras (decorations of nodes that are only reachable through object links must not be rendered)\n%s", diffDesc(want, got))
	}
	return core.Outcome{OK: true}
}

func init() { _ = c04ExtrasClone }

func c04Check(cs c04Case) core.Outcome {
	fail := func(key, f string, a ...interface{}) core.Outcome {
		b, _ := json.Marshal(cs)
		return core.Outcome{Key: key, Desc: string(b) + "\n" + fmt.Sprintf(f, a...)}
	}
	switch cs.Mode {
	case "doc":
		return c04Doc(cs, fail)
	case "instance":
		return c04Instance(cs, fail)
	case "helpers":
		return c04Helpers(fail)
	case "extras-clone":
		return c04ExtrasClone(cs, fail)
	}
	return fail("engine", "unknown mode")
}

func c04Doc(cs c04Case, fail func(string, string, ...interface{}) core.Outcome) core.Outcome {
	loadDoc()
	ex := docExamples[cs.Example]
	keep := map[string]bool{}
	for _, p := range cs.Points {
		keep[p] = true
	}
	base := docText(cs.Example, nil) // no named comments at all
	// as the repository's own TestPositions: decorated with the syntax-based resolver, so that the
	// documented path-carrying identifier (Ident(1)) exists; restored with import management
	const docPath = "github.com/dave/dst/gendst/data"
	f, err := decorator.NewDecoratorWithImports(token.NewFileSet(), docPath, goast.New()).Parse(base)
	if err != nil {
		return fail("engine:doc-does-not-parse", "%v", err)
	}
	printDoc := func(f *dst.File) (string, error) {
		var buf bytes.Buffer
		err := decorator.NewRestorerWithImports(docPath, guess.New()).Fprint(&buf, f)
		return buf.String(), err
	}
	n := locateDocNode(f, ex)
	if n == nil {
		return fail("engine:doc-node-not-found", "documented node of %s not found", ex.Header)
	}
	points := map[string]*dst.Decorations{}
	for _, p := range decPoints(n) {
		points[p.Name] = p.List
	}
	placed := 0
	for _, name := range cs.Points {
		l, ok := points[name]
		if !ok {
			return fail("doc-point-missing:"+ex.Type+"."+name, "the documentation of %s shows a point %s that the node type does not have", ex.Type, name)
		}
		switch cs.Kind {
		case "block":
			l.Append("/*" + name + "*/")
		case "line":
			l.Append("// pt:" + name)
		case "newline":
			l.Append("\n")
		}
		placed++
	}
	var out string
	if p := guard(func() { out, err = printDoc(f) }); p != "" {
		return fail("print-panic:"+ex.Type, "print panicked: %s", p)
	}
	if err != nil || !gen.Parses(out) {
		if cs.Kind != "block" {
			// a line break in the middle of an expression can make the text unparsable (the scanner
			// inserts a semicolon); that is the caller's doing, not a rendering defect
			return core.Outcome{OK: true}
		}
		return fail("print-error:"+ex.Type, "%v", err)
	}
	got := tokenCommentSeq(out)
	switch cs.Kind {
	case "block":
		want, err := gofmt(docText(cs.Example, keep))
		if err != nil {
			return fail("engine:doc-variant-does-not-parse", "%v", err)
		}
		ws := tokenCommentSeq(want)
		if i, ok := sameSeq(ws, got); !ok {
			lo := i - 6
			if lo < 0 {
				lo = 0
			}
			hi := func(s []seqItem) int {
				if i+6 < len(s) {
					return i + 6
				}
				return len(s)
			}
			return fail("doc-position:"+ex.Type+":"+strings.Join(cs.Points, "+"), "%s: placing %v directly on the documented node does not print them where the documentation shows them\ndocumented: … %s …\nprinted:    … %s …",
				ex.Header, cs.Points, seqString(ws[lo:hi(ws)]), seqString(got[lo:hi(got)]))
		}
	default:
		// exactly once each, token stream unchanged
		baseFmt, _ := printDoc(mustParseDoc(base, docPath))
		want := tokenCommentSeq(baseFmt)
		var gotToks, wantAll []seqItem
		count := map[string]int{}
		for _, it := range got {
			if it.comment {
				count[it.text]++
			} else {
				gotToks = append(gotToks, it)
			}
		}
		for _, it := range want {
			if !it.comment {
				wantAll = append(wantAll, it)
			}
		}
		if i, ok := sameSeq(wantAll, gotToks); !ok {
			return fail("doc-tokens-changed:"+ex.Type+":"+cs.Kind, "%s: %s decorations at %v changed the token stream at token %d", ex.Header, cs.Kind, cs.Points, i)
		}
		if cs.Kind == "line" {
			for _, name := range cs.Points {
				if count["//pt:"+name] != 1 {
					return fail("doc-comment-count:"+ex.Type+":"+name, "%s: line comment at %s printed %d times\n%s", ex.Header, name, count["//pt:"+name], out)
				}
			}
		}
	}
	return core.Outcome{OK: true}
}

func mustParseDoc(src, path string) *dst.File {
	f, err := decorator.NewDecoratorWithImports(token.NewFileSet(), path, goast.New()).Parse(src)
	if err != nil {
		panic(err)
	}
	return f
}

// c04Instance: structural rule on an arbitrary node instance.
// c04PartAbsent: the token or child a decoration point is named for is not there (nil child, false
// flag, empty list; the X point of an identifier without a package path), so the point has nothing to
// follow and may coincide with the node's first token.
func c04PartAbsent(n dst.Node, point string) bool {
	if id, ok := n.(*dst.Ident); ok && point == "X" {
		return id.Path == ""
	}
	fv := reflect.ValueOf(n).Elem().FieldByName(point)
	if !fv.IsValid() {
		return false
	}
	switch fv.Kind() {
	case reflect.Ptr, reflect.Interface:
		return fv.IsNil()
	case reflect.Bool:
		return !fv.Bool()
	case reflect.Slice:
		return fv.Len() == 0
	}
	return false
}

func c04Instance(cs c04Case, fail func(string, string, ...interface{}) core.Outcome) core.Outcome {
	t, ok := gen.Find(gen.Templates(), cs.Template)
	if !ok {
		return fail("engine", "unknown template")
	}
	fset := token.NewFileSet()
	af, err := parser.ParseFile(fset, "", t.Src, parser.ParseComments)
	if err != nil {
		panic(err)
	}
	dec := decorator.NewDecorator(fset)
	f, err := dec.DecorateFile(af)
	if err != nil {
		panic(err)
	}
	if cs.Flip != "" {
		fv := reflect.ValueOf(allNodes(f)[cs.FlipNode]).Elem().FieldByName(cs.Flip)
		fv.SetBool(!fv.Bool())
	}
	var labels []string
	if cs.Node == -1 {
		// every point of every node at once: exactly-once and the token stream, no span rule
		for ni, nd := range allNodes(f) {
			for pi, p := range decPoints(nd) {
				l := fmt.Sprintf("/*N%dP%d:%s*/", ni, pi, p.Name)
				p.List.Append(l)
				labels = append(labels, l)
			}
		}
	}
	nodeIdx := cs.Node
	if nodeIdx < 0 {
		nodeIdx = 0
	}
	n := allNodes(f)[nodeIdx]
	tn := typeName(n)
	an := dec.Ast.Nodes[n]
	if cs.Node == -1 {
		tn, an = "all", nil
	}
	pts := decPoints(n)
	for pi, p := range pts {
		if cs.Node == -1 {
			break
		}
		if v := cs.Point - pi; v == 2000 || v == 3000 {
			// the second comment alone must be printable here without changing the token stream (a line comment in
			// the middle of an expression may not be: that is the caller's doing); then the block comment in front of
			// it must be placed like a block comment that is alone
			probe := cs
			probe.Point += 2000
			if o := c04Check(probe); !o.OK {
				c04MixedSkipped++
				return core.Outcome{OK: true}
			}
		}
		if v := cs.Point - pi; v >= 2000 && v%1000 == 0 {
			if v == 2000 || v == 3000 {
				l := fmt.Sprintf("/*P%d:%s*/", pi, p.Name)
				p.List.Append(l)
				labels = append(labels, l)
			}
			l2 := fmt.Sprintf("// Q%d:%s", pi, p.Name)
			if v == 3000 || v == 5000 {
				l2 = fmt.Sprintf("/*R%d:%s\n*/", pi, p.Name)
			}
			p.List.Append(l2)
			labels = append(labels, stripWS(l2)) // the comparison ignores white space inside comments
		}
		if cs.Point == -1 || cs.Point == pi || cs.Point == pi+1000 {
			l := fmt.Sprintf("/*P%d:%s*/", pi, p.Name)
			labels = append(labels, l)
			if cs.Point == pi+1000 {
				// a second comment on the same point (the first put in front of it through Prepend)
				l2 := fmt.Sprintf("/*Q%d:%s*/", pi, p.Name)
				apiPutAll(p.List, l, l2)
				labels = append(labels, l2)
			} else {
				apiPutAll(p.List, l)
			}
		}
	}
	var out string
	var differs string
	if p := guard(func() { out, err, differs = printFileBoth(f) }); p != "" {
		return fail("print-panic:"+tn, "print panicked: %s", p)
	}
	if differs != "" {
		return fail("print-depends-on-fileset-position", "%s", differs)
	}
	if err != nil {
		return fail("print-error:"+tn, "%v", err)
	}
	// token stream unchanged, each label exactly once
	want := tokenCommentSeq(t.Src)
	got := tokenCommentSeq(out)
	isLabel := map[string]bool{}
	for _, l := range labels {
		isLabel[l] = true
	}
	var gotRest []seqItem
	pos := map[string]int{} // label -> number of tokens before it
	count := map[string]int{}
	ntok := 0
	for _, it := range got {
		if it.comment && isLabel[it.text] {
			count[it.text]++
			pos[it.text] = ntok
			continue
		}
		if !it.comment {
			ntok++
		}
		gotRest = append(gotRest, it)
	}
	if i, ok := sameSeq(want, gotRest); !ok {
		return fail("instance-stream-changed:"+tn, "%s: decorating changed the rest of the token/comment stream at item %d\n%s", tn, i, out)
	}
	for _, l := range labels {
		if count[l] != 1 {
			return fail("instance-count:"+tn+":"+l[strings.Index(l, ":")+1:], "%s: decoration %s printed %d times\n%s", tn, l, count[l], out)
		}
	}
	// span: tokens of the node (by the ast twin's Pos/End), ',' and ';' not counted
	if an == nil {
		return core.Outcome{OK: true}
	}
	// The node's tokens by the ast twin's Pos/End. ',' and ';' are not counted. A token is positioned
	// if its offset is stored in some token.Pos field of the ast (go/printer emits the others - ':' of a
	// slice expression, '.', ']', 'else', '=' ... - without consulting a position, so a comment that
	// follows the node may be printed after them: "before the next token the printer emits separately").
	base := fset.File(af.Pos()).Base()
	var ps []posRec
	collectPositions(reflect.ValueOf(af), "File", false, map[uintptr]bool{}, &ps)
	positionedOff := map[int]bool{}
	for _, p := range ps {
		if p.pos.IsValid() && !strings.HasSuffix(p.path, ".Assign") {
			positionedOff[int(p.pos)-base] = true
		}
	}
	first, last := 0, 0
	var positioned []bool
	toks, _ := gen.Tokens(t.Src, false)
	for _, tk := range toks {
		if tk.Tok == token.COMMA || tk.Tok == token.SEMICOLON {
			continue
		}
		positioned = append(positioned, positionedOff[tk.Off])
		if tk.Off < int(an.Pos())-base {
			first++
		}
		if tk.Off < int(an.End())-base {
			last++
		}
	}
	lastMax := last // may slide over following unpositioned tokens
	for lastMax < len(positioned) && !positioned[lastMax] {
		lastMax++
	}
	if inParenImport(f, n) {
		return core.Outcome{OK: true} // gofmt's import sorting moves comments inside grouped import specs
	}
	prev := -1
	for pi, p := range pts {
		l := fmt.Sprintf("/*P%d:%s*/", pi, p.Name)
		if !isLabel[l] {
			continue
		}
		if l2 := fmt.Sprintf("/*Q%d:%s*/", pi, p.Name); isLabel[l2] && pos[l2] != pos[l] {
			return fail("instance-two-comments-split:"+tn+"."+p.Name, "%s.%s: two comments of one point are separated by a token\n%s", tn, p.Name, out)
		}
		at := pos[l]
		switch {
		case p.Name == "Start" && at != first:
			return fail("instance-start-misplaced:"+tn, "%s.Start printed after %d tokens, the node's first token is number %d\n%s", tn, at, first, out)
		case p.Name == "End" && at == lastMax+1 && cs.Point >= 2000 && c04TrailingGroupPostponed(n, f, pos, pi, p.Name):
			// known finding C04-F1 (exact shape only: the unparenthesised result field of a signature, the block
			// comment printed together with the line-breaking comment that follows it in the list, one token late)
			o := fail("instance-end-misplaced:"+tn, "%s.End: the block comment is printed behind the opening brace together with the comment that follows it in the list\n%s", tn, out)
			o.Known = "C04-F1-trailing-comment-group-of-result-field-postponed"
			return o
		case p.Name == "End" && (at < last || at > lastMax):
			return fail("instance-end-misplaced:"+tn, "%s.End printed after %d tokens; the node's tokens end at %d and the next separately emitted token is number %d\n%s", tn, at, last, lastMax, out)
		case p.Name != "Start" && p.Name != "End" && at == first && first < last && !c04PartAbsent(n, p.Name):
			return fail("instance-point-before-first-token:"+tn+"."+p.Name, "%s.%s printed before the node's first token (token %d): every point but Start follows the token or child it is named for\n%s", tn, p.Name, first, out)
		case at < first || at > lastMax:
			return fail("instance-point-outside-node:"+tn+"."+p.Name, "%s.%s printed after %d tokens, outside the node's tokens [%d,%d]\n%s", tn, p.Name, at, first, lastMax, out)
		}
		if at < prev {
			return fail("instance-order:"+tn+"."+p.Name, "%s: point %s printed before an earlier point\n%s", tn, p.Name, out)
		}
		prev = at
	}
	return core.Outcome{OK: true}
}

// c04TrailingGroupPostponed recognises the one shape of known finding C04-F1: n is the field of an unparenthesised
// result list of a function signature, and the block comment of the point is printed at the same token index as
// the comment that follows it in the list.
func c04TrailingGroupPostponed(n dst.Node, f *dst.File, pos map[string]int, pi int, name string) bool {
	if !core.IsKnown("C04-F1-trailing-comment-group-of-result-field-postponed") {
		return false
	}
	fld, ok := n.(*dst.Field)
	if !ok {
		return false
	}
	inResults := false
	for _, m := range allNodes(f) {
		if ft, ok := m.(*dst.FuncType); ok && ft.Results != nil && !ft.Results.Opening && len(ft.Results.List) > 0 && ft.Results.List[len(ft.Results.List)-1] == fld {
			inResults = true
		}
	}
	if !inResults {
		return false
	}
	p := pos[fmt.Sprintf("/*P%d:%s*/", pi, name)]
	q, okq := pos[stripWS(fmt.Sprintf("// Q%d:%s", pi, name))]
	r, okr := pos[stripWS(fmt.Sprintf("/*R%d:%s\n*/", pi, name))]
	return okq && q == p || okr && r == p
}

var c04MixedSkipped int64

// c04Helpers: dstutil.Decorations and Node.Decorations() laws for every node type.
func c04Helpers(fail func(string, string, ...interface{}) core.Outcome) core.Outcome {
	seen := map[string]bool{}
	for _, t := range gen.Templates() {
		f, err := decorator.Parse(t.Src)
		if err != nil {
			panic(err)
		}
		for _, n := range allNodes(f) {
			tn := typeName(n)
			if seen[tn] {
				continue
			}
			seen[tn] = true
			pts := decPoints(n)
			for i, p := range pts {
				p.List.Replace(fmt.Sprintf("/*h%d*/", i))
			}
			nd := n.Decorations()
			nd.Before, nd.After = dst.EmptyLine, dst.NewLine
			before, after, info := dstutil.Decorations(n)
			if before != dst.EmptyLine || after != dst.NewLine {
				return fail("helper-spacing:"+tn, "dstutil.Decorations(%s) returned spacing %v/%v", tn, before, after)
			}
			var wantNames, gotNames []string
			for _, p := range pts {
				wantNames = append(wantNames, p.Name)
			}
			for _, d := range info {
				gotNames = append(gotNames, d.Name)
			}
			if strings.Join(wantNames, ",") != strings.Join(gotNames, ",") {
				return fail("helper-points:"+tn, "dstutil.Decorations(%s) lists points %v, the node's storage has %v", tn, gotNames, wantNames)
			}
			for i, d := range info {
				if len(d.Decs) != 1 || d.Decs[0] != fmt.Sprintf("/*h%d*/", i) {
					return fail("helper-content:"+tn+"."+d.Name, "dstutil.Decorations(%s) point %s holds %v", tn, d.Name, d.Decs)
				}
			}
			// accessor aliases the node's own storage
			nd.Start.Append("/*via-accessor*/")
			st := reflect.ValueOf(n).Elem().FieldByName("Decs").FieldByName("NodeDecs").FieldByName("Start")
			if st.Len() != 2 {
				return fail("accessor-copy:"+tn, "%s.Decorations() does not point into the node", tn)
			}
		}
	}
	var names []string
	for n := range seen {
		names = append(names, n)
	}
	sort.Strings(names)
	if len(names) < 50 {
		return fail("engine:helper-coverage", "only %d node types seen", len(names))
	}
	return core.Outcome{OK: true}
}

// inParenImport reports whether n is (inside) an import spec of a parenthesised import declaration.
func inParenImport(f *dst.File, n dst.Node) bool {
	for _, d := range f.Decls {
		gd, ok := d.(*dst.GenDecl)
		if !ok || gd.Tok != token.IMPORT || !gd.Lparen {
			continue
		}
		for _, sp := range gd.Specs {
			for _, x := range allNodes(sp) {
				if x == n {
					return true
				}
			}
		}
	}
	return false
}
