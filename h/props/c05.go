package props

import (
	"bytes"
	"encoding/json"
	"fmt"
	"go/token"
	"strings"

	"github.com/dave/dst"
	"github.com/dave/dst/decorator"
	"github.com/dave/dst/decorator/resolver/simple"

	"verif/core"
)

// C05: Before/After spacing renders by the documented non-additive rule.

type c05Case struct {
	Kind    string `json:"kind"`
	Spacing [6]int `json:"spacing"` // Before1, After1, Before2, After2, Before3, After3 (0 None, 1 NewLine, 2 EmptyLine)
	Decs    [6]int `json:"decs"`    // Start1, End1, ... (0 none, 1 line comment, 2 "\n", 3 block comment, 4 two line comments, 5 line comment + "\n" + line comment)
}

var c05Kinds = []string{"stmt", "decl", "spec", "field", "method", "clause", "arg", "elt", "rawarg", "rawelt", "rawstmt", "pathelt", "patharg", "casebody", "commbody", "blocks", "importspec", "param", "typeparam"}

func c05OwnLine(kind string) bool {
	return kind != "arg" && kind != "elt" && kind != "param" && kind != "typeparam" && !strings.HasPrefix(kind, "raw")
}

// c05Build makes the real tree and the pieces of the naive text.
func c05Build(kind string) (file *dst.File, elems []dst.Node, open string, texts []string, term string, close string) {
	id := dst.NewIdent
	file = &dst.File{Name: id("p")}
	fn := func(body ...dst.Stmt) *dst.FuncDecl {
		return &dst.FuncDecl{Name: id("f"), Type: &dst.FuncType{Params: &dst.FieldList{}}, Body: &dst.BlockStmt{List: body}}
	}
	names := []string{"a", "b", "c"}
	switch kind {
	case "stmt":
		var list []dst.Stmt
		for _, n := range names {
			s := &dst.ExprStmt{X: &dst.CallExpr{Fun: id(n)}}
			list = append(list, s)
			elems = append(elems, s)
			texts = append(texts, n+"()")
		}
		file.Decls = []dst.Decl{fn(list...)}
		return file, elems, "package p\n\nfunc f() {", texts, ";", "}\n"
	case "casebody", "commbody", "blocks":
		// statement lists whose elements include bare block statements: in a case clause, in a comm
		// clause, in a function body
		var list []dst.Stmt
		for i, n := range names {
			var s dst.Stmt = &dst.ExprStmt{X: &dst.CallExpr{Fun: id(n)}}
			text := n + "()"
			if i == 1 || kind == "blocks" {
				s = &dst.BlockStmt{List: []dst.Stmt{s}}
				text = "{ " + text + " }"
			}
			list = append(list, s)
			elems = append(elems, s)
			texts = append(texts, text)
		}
		switch kind {
		case "casebody":
			sw := &dst.SwitchStmt{Tag: id("x"), Body: &dst.BlockStmt{List: []dst.Stmt{&dst.CaseClause{List: []dst.Expr{&dst.BasicLit{Kind: token.INT, Value: "1"}}, Body: list}}}}
			file.Decls = []dst.Decl{fn(sw)}
			return file, elems, "package p\n\nfunc f() {\n\tswitch x {\n\tcase 1:", texts, ";", "}\n}\n"
		case "commbody":
			sel := &dst.SelectStmt{Body: &dst.BlockStmt{List: []dst.Stmt{&dst.CommClause{Comm: &dst.ExprStmt{X: &dst.UnaryExpr{Op: token.ARROW, X: id("ch")}}, Body: list}}}}
			file.Decls = []dst.Decl{fn(sel)}
			return file, elems, "package p\n\nfunc f() {\n\tselect {\n\tcase <-ch:", texts, ";", "}\n}\n"
		}
		file.Decls = []dst.Decl{fn(list...)}
		return file, elems, "package p\n\nfunc f() {", texts, ";", "}\n"
	case "param", "typeparam":
		// the fields of a function's parameter list / type parameter list
		fl := &dst.FieldList{Opening: true, Closing: true}
		for _, n := range names {
			typ := "int"
			if kind == "typeparam" {
				typ = "any"
				n = strings.ToUpper(n)
			}
			f := &dst.Field{Names: []*dst.Ident{id(n)}, Type: id(typ)}
			fl.List = append(fl.List, f)
			elems = append(elems, f)
			texts = append(texts, n+" "+typ)
		}
		fd := &dst.FuncDecl{Name: id("f"), Type: &dst.FuncType{Func: true, Params: &dst.FieldList{Opening: true, Closing: true}}, Body: &dst.BlockStmt{List: []dst.Stmt{&dst.ReturnStmt{Decs: dst.ReturnStmtDecorations{NodeDecs: dst.NodeDecs{Before: dst.NewLine, After: dst.NewLine}}}}}}
		file.Decls = []dst.Decl{fd}
		if kind == "param" {
			fd.Type.Params = fl
			return file, elems, "package p\n\nfunc f(", texts, ",", ") {\nreturn\n}\n"
		}
		fd.Type.TypeParams = fl
		return file, elems, "package p\n\nfunc f[", texts, ",", "]() {\nreturn\n}\n"
	case "importspec":
		g := &dst.GenDecl{Tok: token.IMPORT, Lparen: true, Rparen: true}
		for _, n := range names {
			s := &dst.ImportSpec{Path: &dst.BasicLit{Kind: token.STRING, Value: "\"" + n + "\""}}
			g.Specs = append(g.Specs, s)
			elems = append(elems, s)
			texts = append(texts, "\""+n+"\"")
		}
		file.Decls = []dst.Decl{g}
		return file, elems, "package p\n\nimport (", texts, ";", ")\n"
	case "decl":
		for _, n := range names {
			d := &dst.GenDecl{Tok: token.VAR, Specs: []dst.Spec{&dst.ValueSpec{Names: []*dst.Ident{id(n)}, Type: id("int")}}}
			file.Decls = append(file.Decls, d)
			elems = append(elems, d)
			texts = append(texts, "var "+n+" int")
		}
		return file, elems, "package p;", texts, ";", "\n"
	case "spec":
		g := &dst.GenDecl{Tok: token.VAR, Lparen: true, Rparen: true}
		for _, n := range names {
			s := &dst.ValueSpec{Names: []*dst.Ident{id(n)}, Type: id("int")}
			g.Specs = append(g.Specs, s)
			elems = append(elems, s)
			texts = append(texts, n+" int")
		}
		file.Decls = []dst.Decl{g}
		return file, elems, "package p\n\nvar (", texts, ";", ")\n"
	case "field", "method":
		fl := &dst.FieldList{Opening: true, Closing: true}
		for _, n := range names {
			var f *dst.Field
			if kind == "field" {
				f = &dst.Field{Names: []*dst.Ident{id(strings.ToUpper(n))}, Type: id("int")}
				texts = append(texts, strings.ToUpper(n)+" int")
			} else {
				f = &dst.Field{Names: []*dst.Ident{id(strings.ToUpper(n))}, Type: &dst.FuncType{Params: &dst.FieldList{Opening: true, Closing: true}}}
				texts = append(texts, strings.ToUpper(n)+"()")
			}
			fl.List = append(fl.List, f)
			elems = append(elems, f)
		}
		var typ dst.Expr
		open = "package p\n\ntype T struct {"
		if kind == "field" {
			typ = &dst.StructType{Fields: fl}
		} else {
			typ = &dst.InterfaceType{Methods: fl}
			open = "package p\n\ntype T interface {"
		}
		file.Decls = []dst.Decl{&dst.GenDecl{Tok: token.TYPE, Specs: []dst.Spec{&dst.TypeSpec{Name: id("T"), Type: typ}}}}
		return file, elems, open, texts, ";", "}\n"
	case "clause":
		sw := &dst.SwitchStmt{Tag: id("x"), Body: &dst.BlockStmt{}}
		for i := range names {
			c := &dst.CaseClause{List: []dst.Expr{&dst.BasicLit{Kind: token.INT, Value: fmt.Sprint(i + 1)}}}
			sw.Body.List = append(sw.Body.List, c)
			elems = append(elems, c)
			texts = append(texts, fmt.Sprintf("case %d:", i+1))
		}
		file.Decls = []dst.Decl{fn(sw)}
		return file, elems, "package p\n\nfunc f() {\n\tswitch x {", texts, "", "}\n}\n"
	case "rawarg", "rawelt", "rawstmt":
		// elements that end in a multi-line raw string with an empty line inside
		raws := []string{"`a\n\nb`", "`c\n\n\nd\n`", "`\n\ne`"}
		var list []dst.Expr
		for _, r := range raws {
			e := &dst.BasicLit{Kind: token.STRING, Value: r}
			list = append(list, e)
			texts = append(texts, r)
		}
		switch kind {
		case "rawarg":
			call := &dst.CallExpr{Fun: id("f"), Args: list}
			for _, e := range list {
				elems = append(elems, e)
			}
			file.Decls = []dst.Decl{&dst.GenDecl{Tok: token.VAR, Specs: []dst.Spec{&dst.ValueSpec{Names: []*dst.Ident{id("_")}, Values: []dst.Expr{call}}}}}
			return file, elems, "package p\n\nvar _ = f(", texts, ",", ")\n"
		case "rawelt":
			cl := &dst.CompositeLit{Type: &dst.ArrayType{Elt: id("string")}, Elts: list}
			for _, e := range list {
				elems = append(elems, e)
			}
			file.Decls = []dst.Decl{&dst.GenDecl{Tok: token.VAR, Specs: []dst.Spec{&dst.ValueSpec{Names: []*dst.Ident{id("_")}, Values: []dst.Expr{cl}}}}}
			return file, elems, "package p\n\nvar _ = []string{", texts, ",", "}\n"
		default:
			var stmts []dst.Stmt
			texts = nil
			for i, e := range list {
				st := &dst.AssignStmt{Lhs: []dst.Expr{id(names[i])}, Tok: token.ASSIGN, Rhs: []dst.Expr{e}}
				stmts = append(stmts, st)
				elems = append(elems, st)
				texts = append(texts, names[i]+" = "+raws[i])
			}
			file.Decls = []dst.Decl{fn(stmts...)}
			return file, elems, "package p\n\nfunc f() {", texts, ";", "}\n"
		}
	case "pathelt", "patharg":
		// elements that are package-qualified identifiers; printed with import management
		var list []dst.Expr
		for _, n := range []string{"V", "K", "W"} {
			e := &dst.Ident{Name: n, Path: "a.b/x"}
			list = append(list, e)
			elems = append(elems, e)
			texts = append(texts, "x."+n)
		}
		if kind == "pathelt" {
			cl := &dst.CompositeLit{Type: &dst.ArrayType{Elt: id("int")}, Elts: list}
			file.Decls = []dst.Decl{&dst.GenDecl{Tok: token.VAR, Specs: []dst.Spec{&dst.ValueSpec{Names: []*dst.Ident{id("_")}, Values: []dst.Expr{cl}}}}}
			return file, elems, "package p\n\nimport \"a.b/x\"\n\nvar _ = []int{", texts, ",", "}\n"
		}
		call := &dst.CallExpr{Fun: id("f"), Args: list}
		file.Decls = []dst.Decl{&dst.GenDecl{Tok: token.VAR, Specs: []dst.Spec{&dst.ValueSpec{Names: []*dst.Ident{id("_")}, Values: []dst.Expr{call}}}}}
		return file, elems, "package p\n\nimport \"a.b/x\"\n\nvar _ = f(", texts, ",", ")\n"
	case "arg":
		call := &dst.CallExpr{Fun: id("f")}
		for _, n := range names {
			a := id(n)
			call.Args = append(call.Args, a)
			elems = append(elems, a)
			texts = append(texts, n)
		}
		file.Decls = []dst.Decl{&dst.GenDecl{Tok: token.VAR, Specs: []dst.Spec{&dst.ValueSpec{Names: []*dst.Ident{id("_")}, Values: []dst.Expr{call}}}}}
		return file, elems, "package p\n\nvar _ = f(", texts, ",", ")\n"
	case "elt":
		cl := &dst.CompositeLit{Type: &dst.ArrayType{Elt: id("int")}}
		for i := range names {
			e := &dst.BasicLit{Kind: token.INT, Value: fmt.Sprint(i + 1)}
			cl.Elts = append(cl.Elts, e)
			elems = append(elems, e)
			texts = append(texts, fmt.Sprint(i+1))
		}
		file.Decls = []dst.Decl{&dst.GenDecl{Tok: token.VAR, Specs: []dst.Spec{&dst.ValueSpec{Names: []*dst.Ident{id("_")}, Values: []dst.Expr{cl}}}}}
		return file, elems, "package p\n\nvar _ = []int{", texts, ",", "}\n"
	}
	panic("unknown kind " + kind)
}

// ledger renders the naive text: spacing asks for "at least n line breaks since the last text"
// (the non-additive rule); a line comment or newline decoration contributes exactly one break.
type ledger struct {
	b      strings.Builder
	breaks int
}

func (l *ledger) text(s string) {
	if s == "" {
		return
	}
	l.b.WriteString(s)
	l.breaks = 0
}

func (l *ledger) space(n int) {
	for l.breaks < n {
		l.b.WriteString("\n")
		l.breaks++
	}
}

func (l *ledger) dec(d string) {
	switch {
	case d == "\n":
		l.b.WriteString("\n")
		l.breaks++
	case strings.HasPrefix(d, "//"):
		l.text(" " + d)
		l.b.WriteString("\n")
		l.breaks = 1
	default:
		l.text(" " + d + " ")
	}
}

func c05Dec(code, serial int) []string {
	switch code {
	case 1:
		return []string{fmt.Sprintf("// s%d", serial)}
	case 2:
		return []string{"\n"}
	case 3:
		return []string{fmt.Sprintf("/*s%d*/", serial)}
	case 4: // two line comments in one list
		return []string{fmt.Sprintf("// s%d", serial), fmt.Sprintf("// t%d", serial)}
	case 5: // a line comment, an empty line, a line comment
		return []string{fmt.Sprintf("// s%d", serial), "\n", fmt.Sprintf("// t%d", serial)}
	}
	return nil
}

func init() {
	core.Register(&core.Prop{
		ID:    "C05",
		Level: "model_checking",
		Rule: "19 list kinds (import specs, function parameters and type parameters, statements, statement lists of case and comm clauses and of function bodies whose elements include bare block statements, declarations, specs, struct fields, interface methods, case clauses, call arguments, composite elements, and arguments / elements / statements ending in multi-line raw strings that contain empty lines, and arguments / elements that are package-qualified identifiers printed with import management) x all 3^6 None/NewLine/EmptyLine assignments to Before/After of 3 elements " +
			"x every assignment of {none, line comment, newline, block comment} to the 6 Start/End points with <=2 (quick) / <=3 (thorough) non-empty, plus lists of several entries (two line comments; line comment, empty line, line comment) at one point (thorough: combined with the others), on hand-built trees; " +
			"oracle: print == gofmt(text rendered by the non-additive line-break ledger) and, for own-line kinds without decorations, one blank line between neighbours iff After or Before is EmptyLine; " +
			"state = (kind, spacing vector, decoration vector); non-trivial = any spacing/decoration set",
		Assumptions: []string{"both sides are normalised by go/format, so go/printer's own layout rules are not modelled"},
		Units: func(tier string) []string {
			var u []string
			for _, k := range c05Kinds {
				for b1 := 0; b1 < 3; b1++ {
					u = append(u, fmt.Sprintf("%s/Before1=%d", k, b1))
				}
			}
			return u
		},
		Run: func(ctx *core.Ctx, unit int) {
			kind := c05Kinds[unit/3]
			maxDecs := 2
			if ctx.Thorough() {
				maxDecs = 3
			}
			var decVecs [][6]int
			var rec func(i int, cur [6]int, n int)
			rec = func(i int, cur [6]int, n int) {
				if i == 6 {
					decVecs = append(decVecs, cur)
					return
				}
				rec(i+1, cur, n)
				if n < maxDecs {
					for c := 1; c <= 3; c++ {
						cur[i] = c
						rec(i+1, cur, n+1)
					}
					// lists of several entries (two line comments; line comment, empty line, line comment): quick tier
					// one such list and nothing else, thorough tier like any other entry
					if n == 0 || ctx.Thorough() {
						for c := 4; c <= 5; c++ {
							cur[i] = c
							if ctx.Thorough() {
								rec(i+1, cur, n+1)
							} else {
								rec(i+1, cur, maxDecs)
							}
						}
					}
				}
			}
			rec(0, [6]int{}, 0)
			for sp := 0; sp < 243; sp++ {
				var s [6]int
				s[0] = unit % 3
				x := sp
				for i := 1; i < 6; i++ {
					s[i] = x % 3
					x /= 3
				}
				for _, dv := range decVecs {
					if ctx.Expired() {
						ctx.Cut("spacing vectors")
						return
					}
					if (kind == "param" || kind == "typeparam") && dv != [6]int{} {
						// parameter lists: the spacing rule alone (go/printer lays out comments and
						// explicit newlines inside a signature by rules of its own, which the ledger does not model)
						continue
					}
					cs := c05Case{Kind: kind, Spacing: s, Decs: dv}
					ctx.CountState(s != [6]int{} || dv != [6]int{})
					ctx.R.Transitions++
					ctx.Eval(cs, c05Check(cs))
					if sp == 100 && dv[1] == 1 && dv[2] == 2 {
						ctx.Sample(cs)
					}
				}
			}
		},
		Check: func(c core.Case) core.Outcome {
			var cs c05Case
			if err := json.Unmarshal(c, &cs); err != nil {
				panic(err)
			}
			return c05Check(cs)
		},
	})
}

func c05Check(cs c05Case) core.Outcome {
	file, elems, open, texts, term, closeText := c05Build(cs.Kind)
	var l ledger
	l.text(open)
	serial := 0
	for i, e := range elems {
		nd := e.Decorations()
		nd.Before = dst.SpaceType(cs.Spacing[2*i])
		nd.After = dst.SpaceType(cs.Spacing[2*i+1])
		l.space(cs.Spacing[2*i])
		if ds := c05Dec(cs.Decs[2*i], serial+1); ds != nil {
			serial++
			apiPutAll(&nd.Start, ds...)
			for _, d := range ds {
				l.dec(d)
			}
		}
		l.text(texts[i] + term)
		if ds := c05Dec(cs.Decs[2*i+1], serial+1); ds != nil {
			serial++
			apiPutAll(&nd.End, ds...)
			for _, d := range ds {
				l.dec(d)
			}
		}
		l.space(cs.Spacing[2*i+1])
	}
	l.text(closeText)
	raw := l.b.String()
	fail := func(key, f string, a ...interface{}) core.Outcome {
		b, _ := json.Marshal(cs)
		return core.Outcome{Key: key, Desc: string(b) + "\n" + fmt.Sprintf(f, a...)}
	}
	want, err := gofmt(raw)
	if err != nil {
		return fail("engine:ledger-text-does-not-parse", "naive text does not parse: %v\n%q", err, raw)
	}
	var got, lateDiffers string
	printIt := func() (string, error) {
		if strings.HasPrefix(cs.Kind, "path") {
			var buf, late bytes.Buffer
			err := decorator.NewRestorerWithImports("example.com/p", simple.New(map[string]string{"a.b/x": "x"})).Fprint(&buf, file)
			lerr := lateRestorer(decorator.NewRestorerWithImports("example.com/p", simple.New(map[string]string{"a.b/x": "x"}))).Fprint(&late, file)
			if err == nil && (lerr != nil || late.String() != buf.String()) {
				lateDiffers = fmt.Sprintf("the print depends on the file's position in the restorer's FileSet (late error: %v)\n%s", lerr, diffDesc(buf.String(), late.String()))
			}
			return buf.String(), err
		}
		out, err, differs := printFileBoth(file)
		lateDiffers = differs
		return out, err
	}
	if p := guard(func() { got, err = printIt() }); p != "" {
		return fail("panic", "print panicked: %s", p)
	}
	if lateDiffers != "" {
		return fail("print-depends-on-fileset-position:"+cs.Kind, "%s", lateDiffers)
	}
	if err != nil {
		return fail("print-error", "%v", err)
	}
	// C05 is about line structure: indentation is not compared (whether a comment line between two case
	// clauses is indented as body or as clause is decided by C01/C02), and the output may keep a line
	// break that one more gofmt pass would join (a newline decoration after the last element of a
	// single-line argument list "contributes its own line break" although gofmt would not keep it).
	if got != want && !sameLineStructure(got, want) {
		if again, err := gofmt(got); err == nil && sameLineStructure(again, want) {
			return core.Outcome{OK: true}
		}
		return fail("layout-differs:"+cs.Kind+":"+c01Class(want, got), "printed layout differs from gofmt of the text the spacing rule denotes\nnaive text: %q\n%s", raw, diffDesc(want, got))
	}
	// direct formulation for own-line kinds without decorations, when every element is on its own line
	if c05OwnLine(cs.Kind) && cs.Decs == [6]int{} {
		lines := strings.Split(got, "\n")
		idx := make([]int, len(texts))
		ok := true
		for i, t := range texts {
			idx[i] = -1
			for li, ln := range lines {
				if strings.TrimSpace(ln) == t {
					idx[i] = li
				}
			}
			if idx[i] < 0 {
				ok = false
			}
		}
		if ok {
			for i := 0; i+1 < len(texts); i++ {
				blank := idx[i+1] - idx[i] - 1
				wantBlank := 0
				if cs.Spacing[2*i+1] == 2 || cs.Spacing[2*i+2] == 2 {
					wantBlank = 1
				}
				if blank != wantBlank {
					return fail("blank-line-rule:"+cs.Kind, "between elements %d and %d: %d blank lines, the rule gives %d\n%s", i+1, i+2, blank, wantBlank, got)
				}
			}
		}
	}
	return core.Outcome{OK: true}
}

func sameLineStructure(a, b string) bool {
	al, bl := strings.Split(a, "\n"), strings.Split(b, "\n")
	if len(al) != len(bl) {
		return false
	}
	for i := range al {
		// indentation and the alignment column of trailing comments are go/printer's business (they depend
		// on which comment an alignment section starts with), the property is about lines
		if strings.Join(strings.Fields(al[i]), " ") != strings.Join(strings.Fields(bl[i]), " ") {
			return false
		}
	}
	return true
}
