package props

import (
	"bytes"
	"encoding/json"
	"fmt"
	"go/ast"
	"go/parser"
	"go/token"
	"reflect"
	"sort"
	"strings"

	"github.com/dave/dst"
	"github.com/dave/dst/decorator"
	"github.com/dave/dst/decorator/resolver/goast"
	"github.com/dave/dst/decorator/resolver/simple"

	"verif/core"
	"verif/gen"
)

// C06: Clone is a complete, alias-free deep copy; a node shared between two places is rejected.

type c06Case struct {
	Template string `json:"template"`
	Filled   bool   `json:"filled"` // every decoration point of every node carries a unique comment
	Mode     string `json:"mode"`   // "clone" (node index) | "share" (node index A into slot index S) | "share-files" (node index: the node also placed at its own position in a second copy of the file, both restored by one Restorer)
	Node     int    `json:"node"`
	Slot     int    `json:"slot,omitempty"`
	Imports  bool   `json:"imports,omitempty"` // import-bearing template, decorated with a resolver, restored with import management
	// Edit: "" | "orphan-import" (the first import declaration is removed from Decls while File.Imports
	// still lists its specs) | "restored" (Imports only: every other declaration removed and the tree
	// restored once, so that the restorer itself dropped the unused imports)
	Edit string `json:"edit,omitempty"`
}

// c06Edit leaves File.Imports holding specs that are no longer part of Decls.
func c06Edit(cs c06Case, f *dst.File) *dst.File {
	switch cs.Edit {
	case "orphan-import":
		for i, dcl := range f.Decls {
			if gd, ok := dcl.(*dst.GenDecl); ok && gd.Tok == token.IMPORT {
				f.Decls = append(f.Decls[:i:i], f.Decls[i+1:]...)
				break
			}
		}
	case "restored":
		var keep []dst.Decl
		for _, dcl := range f.Decls {
			if gd, ok := dcl.(*dst.GenDecl); ok && gd.Tok == token.IMPORT {
				keep = append(keep, dcl)
			}
		}
		f.Decls = keep
		if _, err := c06Print(cs, f); err != nil {
			panic(err)
		}
	}
	return f
}

// c06Print prints with or without import management, according to the case.
func c06Print(cs c06Case, f *dst.File) (string, error) {
	if !cs.Imports {
		return printFile(f)
	}
	var buf bytes.Buffer
	err := decorator.NewRestorerWithImports(localPath, simple.New(stdNames)).Fprint(&buf, f)
	return buf.String(), err
}

func c06Tree(cs c06Case) *dst.File {
	if cs.Imports {
		t, ok := gen.Find(importTemplates(), cs.Template)
		if !ok {
			panic("unknown import template " + cs.Template)
		}
		f, err := decorator.NewDecoratorWithImports(token.NewFileSet(), localPath, goast.WithResolver(simple.New(stdNames))).Parse(t.Src)
		if err != nil {
			panic(err)
		}
		return c06Edit(cs, f)
	}
	t, ok := gen.Find(gen.Templates(), cs.Template)
	if !ok {
		panic("unknown template " + cs.Template)
	}
	f, err := decorator.Parse(t.Src)
	if err != nil {
		panic(err)
	}
	if cs.Filled {
		fillDecorations(f, "d")
	}
	return c06Edit(cs, f)
}

func init() {
	core.Register(&core.Prop{
		ID:    "C06",
		Level: "model_checking",
		Rule: "a decorated three-file Package node, and every node instance of every corpus tree, as parsed and with every decoration point of every node filled: Clone compared field by field (reflection), storage disjointness of everything reachable, " +
			"mutation of every decoration list / slice / scalar of either side leaves the other unchanged, clone substituted in its parent prints identically; every (node, type-compatible slot) pair, and every path-carrying identifier of the import-bearing templates under import management: shared placement must panic (also with Extras, and through a FileRestorer that restored another file before) " +
			"'duplicate node' with no output, cloned placement prints both; every node placed additionally at its own position in a second copy of its file, both files restored by one Restorer: the second restore must panic 'duplicate node', a clone must be accepted; state = (tree variant, node[, slot]); non-trivial = node with children or decorations",
		Assumptions: []string{"reflection sees all exported fields (dst nodes have no unexported state)"},
		Units: func(tier string) []string {
			var u []string
			for _, t := range gen.Templates() {
				u = append(u, t.Name+"/plain", t.Name+"/filled", t.Name+"/share")
			}
			for _, t := range importTemplates() {
				if t.Name != "cgo" {
					u = append(u, "imports-share/"+t.Name)
				}
			}
			return u
		},
		Run: runC06,
		Check: func(c core.Case) core.Outcome {
			var cs c06Case
			if err := json.Unmarshal(c, &cs); err != nil {
				panic(err)
			}
			return c06Check(cs)
		},
	})
}

func runC06(ctx *core.Ctx, unit int) {
	if unit == 0 {
		cs := c06Case{Mode: "package"}
		ctx.State("package", true)
		ctx.Eval(cs, c06Check(cs))
		ctx.R.Transitions++
	}
	if n := 3 * len(gen.Templates()); unit >= n {
		// path-carrying identifiers shared between two places of an import-managed tree
		var names []string
		for _, t := range importTemplates() {
			if t.Name != "cgo" {
				names = append(names, t.Name)
			}
		}
		base := c06Case{Template: names[unit-n], Imports: true}
		// the whole file cloned when File.Imports holds specs that Decls no longer has
		for _, e := range []string{"", "orphan-import", "restored"} {
			cs := base
			cs.Mode, cs.Node, cs.Edit = "clone", 0, e
			ctx.State(fmt.Sprintf("imports|%s|clone-file|%s", cs.Template, e), true)
			ctx.Eval(cs, c06Check(cs))
			ctx.R.Transitions++
		}
		f := c06Tree(base)
		nodes := allNodes(f)
		slots := allSlots(f)
		for ai, a := range nodes {
			id, ok := a.(*dst.Ident)
			if !ok || id.Path == "" {
				continue
			}
			per := 0
			for si, s := range slots {
				if s.Get() == a || !s.Accepts(a) || typeName(s.Parent) == "ImportSpec" {
					continue
				}
				switch typeName(s.Parent) + "." + s.Field {
				case "File.Name", "Field.Names", "LabeledStmt.Label", "BranchStmt.Label", "ValueSpec.Names", "TypeSpec.Name", "FuncDecl.Name", "SelectorExpr.Sel":
					continue // declaring positions: a path-carrying identifier is (rightly) refused there for another reason
				}
				if _, isIdent := s.Get().(*dst.Ident); !isIdent {
					continue // keep the tree printable: identifiers replace identifiers
				}
				if per++; per > 6 && !ctx.Thorough() {
					break
				}
				cs := base
				cs.Mode, cs.Node, cs.Slot = "share", ai, si
				ctx.State(fmt.Sprintf("imports|%s|%d|%d", cs.Template, ai, si), true)
				ctx.Eval(cs, c06Check(cs))
				ctx.R.Transitions++
			}
		}
		return
	}
	t := gen.Templates()[unit/3]
	switch unit % 3 {
	case 0, 1:
		filled := unit%3 == 1
		f := c06Tree(c06Case{Template: t.Name, Filled: filled})
		nodes := allNodes(f)
		for i, n := range nodes {
			cs := c06Case{Template: t.Name, Filled: filled, Mode: "clone", Node: i}
			ctx.State(fmt.Sprintf("%s|%v|%d", t.Name, filled, i), filled || len(nodeSlots(n)) > 0)
			ctx.Eval(cs, c06Check(cs))
			ctx.R.Transitions++
		}
		ctx.Sample(c06Case{Template: t.Name, Filled: filled, Mode: "clone", Node: len(nodes) / 2})
		if !filled {
			for i := 1; i < len(nodes); i++ {
				cs := c06Case{Template: t.Name, Mode: "share-files", Node: i}
				ctx.State(fmt.Sprintf("%s|share-files|%d", t.Name, i), true)
				ctx.Eval(cs, c06Check(cs))
				ctx.R.Transitions++
			}
		}
	case 2:
		f := c06Tree(c06Case{Template: t.Name})
		nodes := allNodes(f)
		slots := allSlots(f)
		perClass := map[string]int{}
		limit := 2
		if ctx.Thorough() {
			limit = 1 << 30
			if len(nodes) > 90 {
				limit = 6
			}
		}
		for ai := 1; ai < len(nodes); ai++ { // 0 is the File
			a := nodes[ai]
			inA := map[dst.Node]bool{}
			for _, n := range allNodes(a) {
				inA[n] = true
			}
			for si, s := range slots {
				if ctx.Expired() {
					ctx.Cut("share pairs")
					return
				}
				if s.Get() == a || inA[s.Parent] || !s.Accepts(a) {
					continue
				}
				// the slot must not hold an ancestor of a (overwriting it would remove a's own place)
				isAncestor := false
				for _, n := range allNodes(s.Get()) {
					if n == a {
						isAncestor = true
						break
					}
				}
				if isAncestor {
					continue
				}
				class := typeName(a) + "->" + typeName(s.Parent) + "." + s.Field
				if perClass[class] >= limit {
					continue
				}
				perClass[class]++
				cs := c06Case{Template: t.Name, Mode: "share", Node: ai, Slot: si}
				ctx.State(fmt.Sprintf("%s|share|%d|%d", t.Name, ai, si), true)
				ctx.Eval(cs, c06Check(cs))
				ctx.R.Transitions++
				if len(perClass) == 3 {
					ctx.Sample(cs)
				}
			}
		}
	}
}

// c06Package clones a decorated three-file package node.
func c06Package(fail func(string, string, ...interface{}) core.Outcome) core.Outcome {
	build := func() *dst.Package {
		fset := token.NewFileSet()
		files := map[string]*ast.File{}
		for i, name := range []string{"vars", "comments", "funcs"} {
			t, _ := gen.Find(gen.Templates(), name)
			af, err := parser.ParseFile(fset, fmt.Sprintf("f%d.go", i), t.Src, parser.ParseComments)
			if err != nil {
				panic(err)
			}
			files[fmt.Sprintf("f%d.go", i)] = af
		}
		dn, err := decorator.NewDecorator(fset).DecorateNode(&ast.Package{Name: "a", Files: files})
		if err != nil {
			panic(err)
		}
		return dn.(*dst.Package)
	}
	pkg := build()
	// import objects as a caller (or dst.NewPackage) puts them there: hand-made, without declaration
	if pkg.Imports == nil {
		pkg.Imports = map[string]*dst.Object{}
	}
	pkg.Imports["fmt"] = dst.NewObj(dst.Pkg, "fmt")
	pkg.Imports["a.b/x"] = dst.NewObj(dst.Pkg, "x")
	var c dst.Node
	if p := guard(func() { c = dst.Clone(pkg) }); p != "" {
		return fail("clone-panic:Package", "Clone(Package) panicked: %s", p)
	}
	if d := deepCompare(reflect.ValueOf(dst.Node(pkg)), reflect.ValueOf(c), "Package", true); d != "" {
		return fail("clone-incomplete:"+fieldKey(d), "Clone(Package) differs from the original: %s", d)
	}
	so, sc := map[uintptr]string{}, map[uintptr]string{}
	storage(reflect.ValueOf(dst.Node(pkg)), "Package", so)
	storage(reflect.ValueOf(c), "Package", sc)
	for addr, p := range sc {
		if q, ok := so[addr]; ok {
			return fail("clone-shares-storage:"+fieldKey(p), "Clone(Package) shares storage with the original: copy %s aliases original %s", p, q)
		}
	}
	cp := c.(*dst.Package)
	for name, f := range pkg.Files {
		cf := cp.Files[name]
		if cf == nil {
			return fail("clone-incomplete:Package.Files", "file %s missing in the clone", name)
		}
		want := mustPrint(f)
		mutateAll(f)
		got, err := printFile(cf)
		if err != nil || got != want {
			return fail("clone-mutation-leak:Package", "file %s of the cloned package prints differently after the original was mutated (err %v)\n%s", name, err, diffDesc(want, got))
		}
	}
	return core.Outcome{OK: true}
}

func c06Check(cs c06Case) core.Outcome {
	fail := func(key, f string, a ...interface{}) core.Outcome {
		b, _ := json.Marshal(cs)
		return core.Outcome{Key: key, Desc: string(b) + "\n" + fmt.Sprintf(f, a...)}
	}
	if cs.Mode == "package" {
		return c06Package(fail)
	}
	f := c06Tree(cs)
	nodes := allNodes(f)
	if cs.Node >= len(nodes) {
		return fail("engine", "node index out of range")
	}
	n := nodes[cs.Node]
	tn := typeName(n)
	if cs.Mode == "share" {
		return c06Share(cs, f, n, fail)
	}
	if cs.Mode == "share-files" {
		// the same node in two files of one package: one Restorer restores both files; the second restore
		// must reject the shared node, and accept a clone in its place
		for _, clone := range []bool{false, true} {
			g := c06Tree(cs)
			s := allSlots(g)[cs.Node-1]
			if clone {
				s.Set(dst.Clone(n))
			} else {
				s.Set(n)
			}
			r := decorator.NewRestorer()
			var p1, p2 string
			p1 = guard(func() { _, _ = r.RestoreFile(f) })
			if p1 != "" {
				return fail("engine:first-file-panics", "%s", p1)
			}
			p2 = guard(func() { _, _ = r.RestoreFile(g) })
			switch {
			case !clone && p2 == "":
				return fail("node-shared-between-files-not-rejected:"+tn, "%s occurs in two files restored by one Restorer: the second restore did not panic", tn)
			case !clone && !strings.Contains(p2, "duplicate node"):
				return fail("shared-node-other-panic", "%s shared between two files: expected the 'duplicate node' panic, got: %s", tn, p2)
			case clone && p2 != "":
				return fail("clone-in-second-file-rejected:"+tn, "a clone of %s in a second file restored by the same Restorer: %s", tn, p2)
			}
			f = c06Tree(cs)
			n = allNodes(f)[cs.Node]
		}
		return core.Outcome{OK: true}
	}
	orig, perr := c06Print(cs, f)
	if perr != nil {
		return fail("engine:print", "%v", perr)
	}

	var c dst.Node
	if p := guard(func() { c = dst.Clone(n) }); p != "" {
		return fail("clone-panic:"+tn, "Clone(%s) panicked: %s", tn, p)
	}
	// (1) complete: field-by-field equality, object/scope links dropped
	if d := deepCompare(reflect.ValueOf(n), reflect.ValueOf(c), tn, true); d != "" {
		return fail("clone-incomplete:"+fieldKey(d), "Clone(%s) differs from the original: %s", tn, d)
	}
	// (2) alias-free: no storage reachable from both
	so, sc := map[uintptr]string{}, map[uintptr]string{}
	storage(reflect.ValueOf(n), tn, so)
	storage(reflect.ValueOf(c), tn, sc)
	var shared []string
	for addr, p := range sc {
		if q, ok := so[addr]; ok {
			shared = append(shared, p+" aliases original "+q)
		}
	}
	if len(shared) > 0 {
		sort.Strings(shared)
		p := strings.SplitN(shared[0], " ", 2)[0]
		return fail("clone-shares-storage:"+fieldKey(p), "Clone(%s) shares storage with the original: copy %s", tn, shared[0])
	}
	// (3) mutation independence, both directions, on every decoration list and scalar
	for dir := 0; dir < 2; dir++ {
		a, b := n, c
		if dir == 1 {
			a, b = c, n
		}
		before := snapshotNode(b)
		mutateAll(a)
		if after := snapshotNode(b); after != before {
			who := "the original changed the clone"
			if dir == 1 {
				who = "the clone changed the original"
			}
			return fail("clone-mutation-leak:"+tn, "mutating %s (%s)", who, tn)
		}
	}
	// (3b) every scalar of the original is now in another state than the parser left it in (booleans flipped -
	// among them flags no parsed tree has set -, tokens and strings changed, spare capacities written): a clone of
	// that node must again be complete and alias-free
	{
		for _, m := range allNodes(n) {
			// the spacing of a declaration's signature node is not consulted by printing (the declaration's own is)
			if fd, ok := m.(*dst.FuncDecl); ok && fd.Type != nil {
				fd.Type.Decs.Before, fd.Type.Decs.After = dst.None, dst.None
			}
		}
		// ... and every identifier is linked to a hand-made object (dst.NewObj: no Decl, Data or Type), which the
		// clone must drop like any other object link
		for _, m := range allNodes(n) {
			if id, ok := m.(*dst.Ident); ok {
				id.Obj = dst.NewObj(dst.Var, id.Name)
			}
		}
		var c2 dst.Node
		if p := guard(func() { c2 = dst.Clone(n) }); p != "" {
			return fail("clone-panic:"+tn, "Clone(%s) with every scalar field changed panicked: %s", tn, p)
		}
		if d := deepCompare(reflect.ValueOf(n), reflect.ValueOf(c2), tn, true); d != "" {
			return fail("clone-incomplete:"+fieldKey(d), "Clone(%s) of a node whose scalar fields were all changed (booleans flipped, strings and tokens altered) differs from it: %s", tn, d)
		}
	}
	// (4) fresh tree: clone substituted for the original prints identically
	f2 := c06Tree(cs)
	n2 := allNodes(f2)[cs.Node]
	var out string
	if cs.Node == 0 {
		var err error
		if p := guard(func() { out, err = c06Print(cs, dst.Clone(f2).(*dst.File)) }); p != "" || err != nil {
			return fail("clone-print-error:"+tn, "printing the cloned file failed: %s %v", p, err)
		}
	} else {
		s := allSlots(f2)[cs.Node-1]
		if s.Get() != n2 {
			return fail("engine", "slot/node numbering out of step")
		}
		s.Set(dst.Clone(n2))
		var err error
		if p := guard(func() { out, err = c06Print(cs, f2) }); p != "" || err != nil {
			return fail("clone-print-error:"+tn, "printing with the clone substituted failed: %s %v", p, err)
		}
	}
	if out != orig {
		return fail("clone-prints-differently:"+tn, "tree with Clone(%s) substituted for the original prints differently\n%s", tn, diffDesc(orig, out))
	}
	return core.Outcome{OK: true}
}

func fieldKey(path string) string {
	// drop indices and anything after ':' to group by field
	if i := strings.Index(path, ":"); i >= 0 {
		path = path[:i]
	}
	var b strings.Builder
	skip := false
	for _, r := range path {
		switch {
		case r == '[':
			skip = true
		case r == ']':
			skip = false
		case !skip:
			b.WriteRune(r)
		}
	}
	parts := strings.Split(b.String(), ".")
	if len(parts) > 3 {
		parts = parts[len(parts)-3:]
	}
	return strings.Join(parts, ".")
}

// snapshotNode renders everything reachable from n (fields, decorations) as a string.
func snapshotNode(n dst.Node) string {
	var b strings.Builder
	var rec func(v reflect.Value)
	rec = func(v reflect.Value) {
		switch v.Kind() {
		case reflect.Ptr, reflect.Interface:
			if v.IsNil() || v.Type() == objectPtrType || v.Type() == scopePtrType {
				b.WriteString("nil;")
				return
			}
			rec(v.Elem())
		case reflect.Struct:
			b.WriteString(v.Type().Name() + "{")
			for i := 0; i < v.NumField(); i++ {
				rec(v.Field(i))
			}
			b.WriteString("}")
		case reflect.Slice:
			fmt.Fprintf(&b, "[%d:", v.Len())
			for i := 0; i < v.Len(); i++ {
				rec(v.Index(i))
			}
			b.WriteString("]")
		case reflect.Map:
			fmt.Fprintf(&b, "map%d;", v.Len())
		default:
			fmt.Fprintf(&b, "%v;", v.Interface())
		}
	}
	rec(reflect.ValueOf(n))
	return b.String()
}

// mutateAll changes every mutable location reachable from n in place: scalars, strings, slice
// elements, and appends within capacity.
func mutateAll(n dst.Node) {
	seen := map[uintptr]bool{}
	var rec func(v reflect.Value)
	rec = func(v reflect.Value) {
		switch v.Kind() {
		case reflect.Ptr:
			if v.IsNil() || v.Type() == objectPtrType || v.Type() == scopePtrType || seen[v.Pointer()] {
				return
			}
			seen[v.Pointer()] = true
			rec(v.Elem())
		case reflect.Interface:
			if !v.IsNil() {
				rec(v.Elem())
			}
		case reflect.Struct:
			for i := 0; i < v.NumField(); i++ {
				rec(v.Field(i))
			}
		case reflect.Slice:
			for i := 0; i < v.Len(); i++ {
				rec(v.Index(i))
			}
			if v.Cap() > v.Len() && v.CanSet() {
				// write into the spare capacity, then restore the length
				full := v.Slice3(0, v.Len()+1, v.Cap())
				if full.Index(v.Len()).Kind() == reflect.String {
					full.Index(v.Len()).SetString("SPARE")
				}
			}
		case reflect.String:
			if v.CanSet() {
				v.SetString(v.String() + "~")
			}
		case reflect.Bool:
			if v.CanSet() {
				v.SetBool(!v.Bool())
			}
		case reflect.Int, reflect.Int64, reflect.Int32:
			if v.CanSet() {
				v.SetInt(v.Int() + 1)
			}
		}
	}
	rec(reflect.ValueOf(n))
}

func c06Share(cs c06Case, f *dst.File, a dst.Node, fail func(string, string, ...interface{}) core.Outcome) core.Outcome {
	slots := allSlots(f)
	if cs.Slot >= len(slots) {
		return fail("engine", "slot index out of range")
	}
	s := slots[cs.Slot]
	what := fmt.Sprintf("%s placed additionally at %s", typeName(a), s)
	// shared placement must be rejected
	s.Set(a)
	var out string
	var err error
	p := guard(func() { out, err = c06Print(cs, f) })
	if p == "" {
		return fail("shared-node-not-rejected", "%s: restore did not panic (err=%v); output:\n%s", what, err, out)
	}
	if !strings.Contains(p, "duplicate node") {
		return fail("shared-node-other-panic", "%s: expected the 'duplicate node' panic, got: %s", what, p)
	}
	if out != "" {
		return fail("shared-node-output", "%s: output produced despite the panic", what)
	}
	// the rejection does not depend on how the restorer is configured or what it restored before:
	// Extras on, and one FileRestorer (Extras on) that has already restored another file
	if !cs.Imports {
		for _, conf := range []string{"extras", "reused-filerestorer-extras"} {
			fx := c06Tree(cs)
			allSlots(fx)[cs.Slot].Set(allNodes(fx)[cs.Node])
			r := decorator.NewRestorer()
			r.Extras = true
			fr := r.FileRestorer()
			if conf == "reused-filerestorer-extras" {
				other, perr := decorator.Parse(otherFileSrc)
				if perr != nil {
					panic(perr)
				}
				var sink bytes.Buffer
				if e := fr.Fprint(&sink, other); e != nil {
					panic(e)
				}
			}
			var buf bytes.Buffer
			px := guard(func() { _ = fr.Fprint(&buf, fx) })
			if px == "" {
				return fail("shared-node-not-rejected:"+conf, "%s (%s): restore did not panic; output:\n%s", what, conf, buf.String())
			}
			if !strings.Contains(px, "duplicate node") {
				return fail("shared-node-other-panic", "%s (%s): expected the 'duplicate node' panic, got: %s", what, conf, px)
			}
		}
	}
	// the same tree built from a clone prints, with both occurrences
	f2 := c06Tree(cs)
	a2 := allNodes(f2)[cs.Node]
	s2 := allSlots(f2)[cs.Slot]
	a2.Decorations().Start.Append("/*MARK*/")
	var cl dst.Node
	if p := guard(func() { cl = dst.Clone(a2) }); p != "" {
		return fail("clone-panic:"+typeName(a2), "Clone panicked: %s", p)
	}
	s2.Set(cl)
	p = guard(func() { out, err = c06Print(cs, f2) })
	if p != "" {
		if strings.Contains(p, "duplicate node") {
			return fail("cloned-node-rejected", "%s as a clone: restore panicked: %s", what, p)
		}
		return core.Outcome{OK: true} // a tree that go/printer cannot print for other reasons says nothing about Clone
	}
	if err != nil {
		return core.Outcome{OK: true}
	}
	if strings.Count(out, "/*MARK*/") != 2 {
		return fail("cloned-node-not-printed-twice", "%s as a clone: expected both occurrences in the output, found %d\n%s", what, strings.Count(out, "/*MARK*/"), out)
	}
	return core.Outcome{OK: true}
}
