package props

import (
	"bytes"
	"encoding/json"
	"fmt"
	"go/ast"
	"go/parser"
	"go/token"
	"regexp"
	"sort"
	"strconv"
	"strings"

	"github.com/dave/dst"
	"github.com/dave/dst/decorator"
	"github.com/dave/dst/decorator/resolver/simple"

	"verif/core"
	"verif/oracle"
)

// C07: import-managed restore binds each reference to its package; imports stay exact.

var c07Paths = []string{"fmt", "io", "a.b/x", "c.d/x", "e.f/y-go"}
var c07Names = map[string]string{"fmt": "fmt", "io": "io", "a.b/x": "x", "c.d/x": "x", "e.f/y-go": "y"}

// package i exports Fi, Ti, Vi: a reference name identifies its package
func c07World() *oracle.World {
	src := map[string]string{}
	for i, p := range c07Paths {
		src[p] = fmt.Sprintf("package %s\n\ntype T%d struct{}\n\nfunc F%d() {}\n\nvar V%d int\n", c07Names[p], i, i, i)
	}
	return oracle.NewWorld(src)
}

var c07W = c07World()

var c07Shapes = []struct{ Name, Src string }{
	{"none", ""},
	{"single", "import \"fmt\"\n"},
	{"block", "import (\n\t\"fmt\"\n\t\"io\"\n\n\t\"a.b/x\"\n)\n"},
	{"two-blocks", "import \"io\"\n\nimport (\n\t\"fmt\"\n\n\ty \"e.f/y-go\"\n)\n"},
	{"cgo+block", "/*\n#include <stdio.h>\n*/\nimport \"C\"\n\nimport (\n\t\"fmt\"\n)\n"},
	{"cgo-only", "/*\n#include <stdio.h>\n*/\nimport \"C\"\n"},
	{"aliases", "import (\n\tf \"fmt\"\n\t_ \"io\"\n\n\t. \"a.b/x\"\n\tx2 \"c.d/x\"\n)\n"},
	{"commented", "import (\n\t// doc fmt\n\t\"fmt\"\n\n\t\"io\" // trailing io\n\n\t// doc x\n\t\"a.b/x\"\n\t\"c.d/x\" // why\n)\n"},
	{"same-path-twice", "import (\n\t\"fmt\"\n\tfmt2 \"fmt\"\n)\n"},
	{"aliased-to-own-name", "import (\n\tfmt \"fmt\"\n\tio2 \"io\"\n)\n"},
	{"cgo-in-group", "import (\n\t\"C\"\n\t\"fmt\"\n\tx2 \"c.d/x\"\n\t_ \"io\"\n)\n"},
	{"three-groups", "import (\n\t\"fmt\"\n\n\t\"a.b/x\"\n\tx2 \"c.d/x\"\n\n\ty \"e.f/y-go\"\n\t\"io\"\n)\n"},
	{"raw-string-paths", "import (\n\tf `fmt`\n\t`io` // raw\n\n\t. `a.b/x`\n\t\"c.d\\x2fx\"\n)\n"},
}

var c07Overrides = []string{"zz", "@other", "@other1", "@srcalias", ".", "", "_"}

type c07Case struct {
	Used    int    `json:"used"` // bit set over c07Paths
	Shape   int    `json:"shape"`
	OvPath  int    `json:"ov_path"` // -1 none
	Ov      string `json:"ov,omitempty"`
	Ov2Path int    `json:"ov2_path,omitempty"` // 1+index of a second overridden path (0 = none)
	Ov2     string `json:"ov2,omitempty"`
	Missing bool   `json:"resolver_missing_unused"` // resolver map lacks the unused paths
	// Prev: a file the same Restorer restores first (its own FileRestorer, its own override); the file
	// under test must come out as if it had been restored alone
	Prev *c07Case `json:"prev,omitempty"`
	// Fields: the Restorer is NewRestorer() configured through its Path and Resolver fields
	Fields bool `json:"fields,omitempty"`
	// Stale: File.Imports and the import declarations disagree, as after an edit by hand:
	// "decls-removed" (the import declarations were deleted from Decls, File.Imports still lists them: the
	// source then has no imports) | "imports-cleared" (File.Imports emptied, declarations untouched)
	Stale   string `json:"stale,omitempty"`
	LocalIs int    `json:"local_is"` // -1 unrelated, i: path i is the local package, 100+i: path i + "_test" is, 200+i: path i + "/internal" is
}

func init() {
	core.Register(&core.Prop{
		ID:    "C07",
		Level: "model_checking",
		Rule: "every configuration: used-path set (32 subsets of 5 paths incl. two packages named x and one whose name differs from its path) x 13 existing import shapes (none, single, block, two blocks, cgo alone and cgo leading a group, aliases/blank/dot, commented groups, same path twice, alias equal to name, raw-string and escaped path literals) " +
			"x FileRestorer.Alias override {none} + path x {new id, id of another package, the suffixed name a conflict would generate (x1), an alias another source import already uses, '.', '', '_'} (and a second simultaneous override on a later path: quick {new id equal to the first override's, name of another package}, thorough the whole alphabet) x resolver {exact, lacking unused paths} x local path {unrelated, equal to a used path, a used path + '_test', a package below a used path}; the Restorer built by the constructor or configured through its fields; trees whose File.Imports and import declarations disagree (declarations deleted by hand, File.Imports emptied); every shape also restored as the second file of a Restorer that restored another shape first (with and without an alias override there); references are path-carrying identifiers in call, type and composite-literal positions; " +
			"oracle independent of updateImports: re-parse the output, rebuild the import table from its import declarations and the resolver map; binding of every reference, exact import set, distinct names, name preference override > source alias > resolved name (+ decimal suffix on conflict), " +
			"stable order/comments/group separation when nothing is added, and go/types acceptance; state = configuration; non-trivial = configuration with at least one used path",
		Assumptions: []string{"package i exports Fi/Ti/Vi so that a reference name identifies its package", "go/types (FakeImportC) is the acceptance oracle"},
		Units: func(tier string) []string {
			var u []string
			for s := range c07Shapes {
				for used := 0; used < 32; used += 8 {
					u = append(u, fmt.Sprintf("%s/used>=%d", c07Shapes[s].Name, used))
				}
			}
			return append(u, siteUnits("C07")...)
		},
		Run: func(ctx *core.Ctx, unit int) {
			if n := 4 * len(c07Shapes); unit >= n {
				siteRun(ctx, "C07", unit-n)
				return
			}
			shape, ubase := unit/4, (unit%4)*8
			if ubase == 8 {
				// one Restorer restores an earlier file (every shape, with and without an alias override on
				// its first path) and then this shape: the second file must come out as if restored alone
				for prevShape := range c07Shapes {
					for _, pov := range []int{-1, 0, 1} {
						prev := c07Case{Used: 0b01011, Shape: prevShape, OvPath: pov, Ov: "zz", LocalIs: -1}
						for _, used := range []int{0b01011, 0b00111} {
							cs := c07Case{Used: used, Shape: shape, OvPath: -1, LocalIs: -1, Prev: &prev}
							ctx.CountState(true)
							ctx.R.Transitions++
							ctx.Eval(cs, c07Check(cs))
						}
					}
				}
			}
			for used := ubase; used < ubase+8; used++ {
				for ovp := -1; ovp < len(c07Paths); ovp++ {
					ovs := c07Overrides
					if ovp < 0 {
						ovs = []string{""}
					}
					for _, ov := range ovs {
						for _, missing := range []bool{false, true} {
							// local path: unrelated, equal to a used path, or merely similar to one (the path of its external
							// test package, a package below it): only the equal one makes references local
							for _, local := range c07Locals {
								if local >= 0 && (used&(1<<(local%100)) == 0 || ovp >= 0 && !ctx.Thorough()) {
									continue
								}
								cs := c07Case{Used: used, Shape: shape, OvPath: ovp, Ov: ov, Missing: missing, LocalIs: local}
								ctx.CountState(used != 0)
								ctx.R.Transitions++
								ctx.Eval(cs, c07Check(cs))
								if ovp < 0 && local < 0 && !missing {
									for _, stale := range []string{"decls-removed", "imports-cleared"} {
										st := cs
										st.Stale = stale
										ctx.CountState(used != 0)
										ctx.R.Transitions++
										ctx.Eval(st, c07Check(st))
									}
								}
								if ovp < 0 {
									cf := cs
									cf.Fields = true
									ctx.CountState(used != 0)
									ctx.R.Transitions++
									ctx.Eval(cf, c07Check(cf))
								}
								if used == 13 && ovp == 2 && ov == "zz" {
									ctx.Sample(cs)
								}
								// a second, simultaneous override on a later path (quick: the two that can collide with
								// the first one's name; thorough: the whole override alphabet)
								if ovp < 0 || local >= 0 || missing {
									continue
								}
								ov2s := []string{"zz", "@other"}
								if ctx.Thorough() {
									ov2s = c07Overrides
								}
								for ovp2 := ovp + 1; ovp2 < len(c07Paths); ovp2++ {
									for _, ov2 := range ov2s {
										cs := c07Case{Used: used, Shape: shape, OvPath: ovp, Ov: ov, Ov2Path: ovp2 + 1, Ov2: ov2, LocalIs: -1}
										ctx.CountState(used != 0)
										ctx.R.Transitions++
										ctx.Eval(cs, c07Check(cs))
									}
								}
							}
						}
					}
				}
			}
		},
		Check: func(c core.Case) core.Outcome {
			if sc, ok := siteDecode(c); ok {
				return siteCheck(sc, nil)
			}
			var cs c07Case
			if err := json.Unmarshal(c, &cs); err != nil {
				panic(err)
			}
			return c07Check(cs)
		},
	})
}

// local package: -1 unrelated, i = path i itself, 100+i = path i + "_test", 200+i = path i + "/internal"
var c07Locals = []int{-1, 0, 1, 2, 3, 4, 100, 101, 102, 103, 104, 200, 202}

var c07Ref = regexp.MustCompile(`^[FTV]([0-9])$`)

// c07BuildFile parses the import shape and appends hand-made references.
func c07BuildFile(cs c07Case) (*dst.File, string) {
	src := "package a\n\n" + c07Shapes[cs.Shape].Src
	f, err := decorator.Parse(src)
	if err != nil {
		panic(err)
	}
	for i, p := range c07Paths {
		if cs.Used&(1<<i) == 0 {
			continue
		}
		id := func(prefix string) *dst.Ident { return &dst.Ident{Name: fmt.Sprintf("%s%d", prefix, i), Path: p} }
		// call, type expression, composite literal type
		f.Decls = append(f.Decls,
			&dst.FuncDecl{Name: dst.NewIdent(fmt.Sprintf("g%d", i)), Type: &dst.FuncType{Params: &dst.FieldList{}},
				Body: &dst.BlockStmt{List: []dst.Stmt{&dst.ExprStmt{X: &dst.CallExpr{Fun: id("F")}}}}},
			&dst.GenDecl{Tok: token.VAR, Specs: []dst.Spec{&dst.ValueSpec{Names: []*dst.Ident{dst.NewIdent(fmt.Sprintf("v%d", i))}, Type: id("T")}}},
			&dst.GenDecl{Tok: token.VAR, Specs: []dst.Spec{&dst.ValueSpec{Names: []*dst.Ident{dst.NewIdent(fmt.Sprintf("w%d", i))}, Values: []dst.Expr{&dst.CompositeLit{Type: id("T")}}}}},
		)
	}
	switch cs.Stale {
	case "decls-removed":
		var keep []dst.Decl
		for _, dcl := range f.Decls {
			if gd, ok := dcl.(*dst.GenDecl); ok && gd.Tok == token.IMPORT {
				continue
			}
			keep = append(keep, dcl)
		}
		f.Decls = keep
	case "imports-cleared":
		f.Imports = nil
	}
	return f, src
}

func c07ResolveOv(pathIdx int, ov string) string {
	switch ov {
	case "@other":
		// the resolved name of another package
		return c07Names[c07Paths[(pathIdx+1)%len(c07Paths)]]
	case "@srcalias":
		// an alias that another import of the source already uses
		if pathIdx == 0 {
			return "x2"
		}
		return "f"
	case "@other1":
		// the name the conflict resolution would generate for a clash between the two x packages
		return "x1"
	}
	return ov
}

func c07Check(cs c07Case) core.Outcome {
	fail := func(key, f string, a ...interface{}) core.Outcome {
		b, _ := json.Marshal(cs)
		return core.Outcome{Key: key, Desc: string(b) + " shape=" + c07Shapes[cs.Shape].Name + "\n" + fmt.Sprintf(f, a...)}
	}
	local := "example.com/unrelated"
	switch {
	case cs.LocalIs >= 200:
		local = c07Paths[cs.LocalIs-200] + "/internal"
	case cs.LocalIs >= 100:
		local = c07Paths[cs.LocalIs-100] + "_test"
	case cs.LocalIs >= 0:
		local = c07Paths[cs.LocalIs]
	}
	used := map[string]bool{}
	for i, p := range c07Paths {
		if cs.Used&(1<<i) != 0 && p != local {
			used[p] = true
		}
	}
	// source imports
	srcAlias := map[string]string{} // path -> alias in source ("" none)
	var srcOrder []string
	srcCount := map[string]int{}
	{
		af, err := parser.ParseFile(token.NewFileSet(), "", "package a\n\n"+c07Shapes[cs.Shape].Src, parser.ImportsOnly)
		if err != nil {
			panic(err)
		}
		if cs.Stale == "decls-removed" {
			af.Imports = nil // the tree handed to the restorer has no import declarations
		}
		for _, is := range af.Imports {
			p, _ := strconv.Unquote(is.Path.Value)
			srcCount[p]++
			if _, seen := srcAlias[p]; seen {
				continue
			}
			srcOrder = append(srcOrder, p)
			srcAlias[p] = ""
			if is.Name != nil {
				srcAlias[p] = is.Name.Name
			}
		}
	}
	resolveOv := c07ResolveOv
	_ = func(pathIdx int, ov string) string {
		switch ov {
		case "@other":
			// the resolved name of another package
			return c07Names[c07Paths[(pathIdx+1)%len(c07Paths)]]
		case "@srcalias":
			// an alias that another import of the source already uses
			if pathIdx == 0 {
				return "x2"
			}
			return "f"
		case "@other1":
			// the name the conflict resolution would generate for a clash between the two x packages
			return "x1"
		}
		return ov
	}
	overrides := map[string]string{} // FileRestorer.Alias
	if cs.OvPath >= 0 {
		overrides[c07Paths[cs.OvPath]] = resolveOv(cs.OvPath, cs.Ov)
	}
	if cs.Ov2Path > 0 { // a second, simultaneous override (index+1; 0 = none)
		overrides[c07Paths[cs.Ov2Path-1]] = resolveOv(cs.Ov2Path-1, cs.Ov2)
	}
	names := map[string]string{}
	for _, p := range c07Paths {
		if !cs.Missing || used[p] {
			names[p] = c07Names[p]
		}
	}
	run := func() (string, error, string) {
		f, _ := c07BuildFile(cs)
		r := decorator.NewRestorerWithImports(local, simple.New(names))
		if cs.Fields {
			r = decorator.NewRestorer()
			r.Path = local
			r.Resolver = simple.New(names)
		}
		if cs.Prev != nil {
			pf, _ := c07BuildFile(*cs.Prev)
			pfr := r.FileRestorer()
			if cs.Prev.OvPath >= 0 {
				pfr.Alias[c07Paths[cs.Prev.OvPath]] = c07ResolveOv(cs.Prev.OvPath, cs.Prev.Ov)
			}
			var sink bytes.Buffer
			if p := guard(func() { _ = pfr.Fprint(&sink, pf) }); p != "" {
				return "", nil, "restoring the earlier file panicked: " + p
			}
		}
		fr := r.FileRestorer()
		for p, a := range overrides {
			fr.Alias[p] = a
		}
		var buf bytes.Buffer
		var err error
		p := guard(func() { err = fr.Fprint(&buf, f) })
		return buf.String(), err, p
	}
	out, err, pan := run()
	if pan == "" && err == nil {
		// the same configuration restored as a later file of a populated FileSet prints the same text
		f, _ := c07BuildFile(cs)
		fr := lateRestorer(decorator.NewRestorerWithImports(local, simple.New(names))).FileRestorer()
		for p, a := range overrides {
			fr.Alias[p] = a
		}
		var late bytes.Buffer
		var lerr error
		if p := guard(func() { lerr = fr.Fprint(&late, f) }); p != "" || lerr != nil || late.String() != out {
			return fail("print-depends-on-fileset-position", "restored as a later file of a populated FileSet: panic %q error %v\n%s", p, lerr, diffDesc(out, late.String()))
		}
	}
	if pan != "" {
		return fail("panic:"+short(pan, 60), "restore panicked: %s", pan)
	}
	if err != nil {
		return fail("error", "restore failed: %v", err)
	}
	// (repeatability under different map iteration orders is decided by C16, where the order is controlled)
	desc := func(what string) string { return what + "\noutput:\n" + out }

	fset := token.NewFileSet()
	of, err := parser.ParseFile(fset, "a.go", out, parser.ParseComments)
	if err != nil {
		return fail("output-does-not-parse", "%s", desc(err.Error()))
	}
	// import table of the output
	type imp struct{ path, alias string }
	var imps []imp
	count := map[string]int{}
	for _, is := range of.Imports {
		p, _ := strconv.Unquote(is.Path.Value)
		a := ""
		if is.Name != nil {
			a = is.Name.Name
		}
		imps = append(imps, imp{p, a})
		count[p]++
	}
	// expected preferred alias per path
	pref := func(p string) string { // "." dot, "_" blank, else the preferred name
		if override, hasOv := overrides[p]; hasOv {
			switch {
			case override == "":
				return c07Names[p]
			case override == "_" && used[p]:
				// ignored: falls through to the source alias
			default:
				return override
			}
		}
		if a := srcAlias[p]; a != "" && !(a == "_" && used[p]) {
			return a
		}
		return c07Names[p]
	}
	wantImports := map[string]bool{}
	for p := range used {
		wantImports[p] = true
	}
	for p := range srcAlias {
		if p == "C" {
			wantImports[p] = true
		} else if !used[p] && pref(p) == "_" {
			wantImports[p] = true
		}
	}
	for ovPath, override := range overrides {
		if override == "_" && !used[ovPath] {
			wantImports[ovPath] = true
		}
	}
	twice := c07Shapes[cs.Shape].Name == "same-path-twice"
	for p := range wantImports {
		if count[p] == 0 {
			return fail("import-missing", "%s", desc(fmt.Sprintf("import of %q is missing", p)))
		}
	}
	for p, n := range count {
		if !wantImports[p] {
			return fail("import-superfluous", "%s", desc(fmt.Sprintf("import of %q is neither referenced, blank nor cgo", p)))
		}
		if n != 1 {
			return fail("import-duplicated", "%s", desc(fmt.Sprintf("import of %q occurs %d times", p, n)))
		}
	}
	// names
	bound := map[string]string{} // name in code -> path
	dot := map[string]bool{}
	for _, im := range imps {
		if im.path == "C" {
			continue
		}
		switch im.alias {
		case "_":
			if used[im.path] {
				return fail("used-path-imported-blank", "%s", desc(im.path+" is referenced but imported blank"))
			}
			continue
		case ".":
			dot[im.path] = true
			if pref(im.path) != "." {
				return fail("unexpected-dot-import", "%s", desc(im.path+" is dot-imported without being asked to"))
			}
			continue
		}
		name := im.alias
		if name == "" {
			name = c07Names[im.path]
		}
		if q, dup := bound[name]; dup {
			return fail("names-not-distinct", "%s", desc(fmt.Sprintf("%q and %q are both bound to the name %s", q, im.path, name)))
		}
		bound[name] = im.path
		want := pref(im.path)
		if srcCount[im.path] > 1 {
			continue // imported twice in the source: which of the two source aliases counts is not defined
		}
		if want == "." || want == "_" {
			return fail("alias-preference", "%s", desc(fmt.Sprintf("%q should be imported as %q but is named %s", im.path, want, name)))
		}
		if name != want {
			suffix := strings.TrimPrefix(name, want)
			if !strings.HasPrefix(name, want) || strings.Trim(suffix, "0123456789") != "" {
				return fail("alias-preference", "%s", desc(fmt.Sprintf("%q is named %s; preferred name is %s (override > source alias > resolved name, plus a decimal suffix on conflict)", im.path, name, want)))
			}
		}
	}
	// a preferred name that no other import wants must be used as is
	prefCount := map[string]int{}
	for _, im := range imps {
		if im.path != "C" && im.alias != "_" && im.alias != "." {
			prefCount[pref(im.path)]++
		}
	}
	for name, p := range bound {
		if w := pref(p); prefCount[w] == 1 && name != w && srcCount[p] <= 1 {
			taken := false
			for other := range bound {
				if other == w {
					taken = true
				}
			}
			if !taken {
				return fail("needless-rename", "%s", desc(fmt.Sprintf("%q is named %s although its preferred name %s is free", p, name, w)))
			}
		}
	}
	// explicit alias written only when needed or asked for: an unaliased spec must resolve to its own name
	// references
	var refErr string
	selectorSel := map[*ast.Ident]bool{}
	ast.Inspect(of, func(n ast.Node) bool {
		if refErr != "" {
			return false
		}
		switch x := n.(type) {
		case *ast.SelectorExpr:
			m := c07Ref.FindStringSubmatch(x.Sel.Name)
			if m == nil {
				return true
			}
			selectorSel[x.Sel] = true
			idx, _ := strconv.Atoi(m[1])
			p := c07Paths[idx]
			q, ok := x.X.(*ast.Ident)
			if !ok {
				refErr = "reference " + x.Sel.Name + " is qualified by a non-identifier"
				return false
			}
			if bound[q.Name] != p {
				refErr = fmt.Sprintf("reference %s.%s: %s is bound to %q, the identifier carried path %q", q.Name, x.Sel.Name, q.Name, bound[q.Name], p)
			}
			if p == local {
				refErr = fmt.Sprintf("reference %s to the local package is qualified", x.Sel.Name)
			}
		case *ast.Ident:
			m := c07Ref.FindStringSubmatch(x.Name)
			if m == nil || selectorSel[x] {
				return true
			}
			idx, _ := strconv.Atoi(m[1])
			p := c07Paths[idx]
			if p != local && !dot[p] {
				refErr = fmt.Sprintf("reference %s is bare although %q is neither local nor dot-imported", x.Name, p)
			}
		}
		return true
	})
	if refErr != "" {
		return fail("reference-binding", "%s", desc(refErr))
	}
	// every reference survived
	nref := 0
	for i := range c07Paths {
		if cs.Used&(1<<i) != 0 {
			nref += 3
		}
	}
	got := 0
	ast.Inspect(of, func(n ast.Node) bool {
		if id, ok := n.(*ast.Ident); ok && c07Ref.MatchString(id.Name) {
			got++
		}
		return true
	})
	if got != nref {
		return fail("reference-count", "%s", desc(fmt.Sprintf("%d references expected, %d found", nref, got)))
	}
	// nothing added: surviving specs keep order and comments
	added := false
	for p := range wantImports {
		if _, ok := srcAlias[p]; !ok {
			added = true
		}
	}
	if !added && !twice {
		// gofmt (format.Node) sorts every run of import specs not separated by a blank line, so order is
		// only required between specs that end up in different runs or different declarations
		srcIdx := map[string]int{}
		for i, p := range srcOrder {
			srcIdx[p] = i
		}
		lines := strings.Split(out, "\n")
		group := make([]int, len(of.Imports))
		g := 0
		for i, is := range of.Imports {
			if i > 0 {
				prevEnd := fset.Position(of.Imports[i-1].End()).Line
				start := fset.Position(is.Pos()).Line
				if is.Doc != nil {
					start = fset.Position(is.Doc.Pos()).Line
				}
				for l := prevEnd; l < start-1; l++ {
					if strings.TrimSpace(lines[l]) == "" || strings.HasPrefix(strings.TrimSpace(lines[l]), ")") || strings.HasPrefix(strings.TrimSpace(lines[l]), "import") {
						g++
						break
					}
				}
			}
			group[i] = g
		}
		for i := range imps {
			for j := i + 1; j < len(imps); j++ {
				if group[i] != group[j] && srcIdx[imps[i].path] > srcIdx[imps[j].path] {
					return fail("import-order-changed", "%s", desc(fmt.Sprintf("no import had to be added, yet %q now precedes %q (source order %v)", imps[i].path, imps[j].path, srcOrder)))
				}
			}
		}
		// the blank lines that separate groups of specs are decorations too: two surviving specs of one
		// declaration that the source kept in different groups are still in different groups
		{
			sfset := token.NewFileSet()
			ssrc := "package a\n\n" + c07Shapes[cs.Shape].Src
			if sf, err := parser.ParseFile(sfset, "", ssrc, parser.ParseComments); err == nil && cs.Stale == "" {
				slines := strings.Split(ssrc, "\n")
				srcGroup := map[string]int{}
				sg := 0
				for i, is := range sf.Imports {
					if i > 0 {
						prevEnd := sfset.Position(sf.Imports[i-1].End()).Line
						start := sfset.Position(is.Pos()).Line
						if is.Doc != nil {
							start = sfset.Position(is.Doc.Pos()).Line
						}
						for l := prevEnd; l < start-1; l++ {
							if t := strings.TrimSpace(slines[l]); t == "" || strings.HasPrefix(t, ")") || strings.HasPrefix(t, "import") {
								sg++
								break
							}
						}
					}
					p, _ := strconv.Unquote(is.Path.Value)
					if _, seen := srcGroup[p]; !seen {
						srcGroup[p] = sg
					}
				}
				for i := range imps {
					for j := i + 1; j < len(imps); j++ {
						gi, iok := srcGroup[imps[i].path]
						gj, jok := srcGroup[imps[j].path]
						// (only for neighbours in the source: the blank line between specs that were not neighbours
						// may have belonged to a spec that is gone)
						if iok && jok && gi != gj && group[i] == group[j] && srcIdx[imps[j].path]-srcIdx[imps[i].path] == 1 {
							return fail("import-groups-merged", "%s", desc(fmt.Sprintf("no import had to be added, yet %q and %q, which were neighbours separated by a blank line in the source, are now in one group", imps[i].path, imps[j].path)))
						}
					}
				}
			}
		}
		for _, c := range []struct{ path, text string }{{"fmt", "// doc fmt"}, {"io", "// trailing io"}, {"a.b/x", "// doc x"}, {"c.d/x", "// why"}} {
			if strings.Contains(c07Shapes[cs.Shape].Src, c.text) && wantImports[c.path] && !strings.Contains(out, c.text) {
				return fail("import-comment-lost", "%s", desc(fmt.Sprintf("comment %q of the surviving import %q is lost", c.text, c.path)))
			}
		}
	}
	// the output type-checks (references to the local package are declared nowhere: skip then)
	if cs.LocalIs < 0 || cs.LocalIs >= 100 {
		if _, err := c07W.Check(local, map[string]string{"a.go": out}); err != nil {
			return fail("output-does-not-type-check", "%s", desc(err.Error()))
		}
	}
	_ = sort.Strings
	return core.Outcome{OK: true}
}
