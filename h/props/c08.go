package props

import (
	"bytes"
	"encoding/json"
	"fmt"
	"go/ast"
	"go/build"
	"go/parser"
	"go/token"
	"sort"
	"strconv"
	"strings"

	"github.com/dave/dst"
	"github.com/dave/dst/decorator"
	"github.com/dave/dst/decorator/resolver"
	"github.com/dave/dst/decorator/resolver/goast"
	"github.com/dave/dst/decorator/resolver/gobuild"
	"github.com/dave/dst/decorator/resolver/gotypes"
	"github.com/dave/dst/decorator/resolver/guess"
	"github.com/dave/dst/decorator/resolver/simple"

	"verif/core"
	"verif/gen"
	"verif/oracle"
)

// C08: import management is transparent when nothing changes.

const localPath = "example.com/local"

const c08Shards = 4

type c08Case struct {
	Src  string `json:"src"`
	Src2 string `json:"src2,omitempty"` // second file decorated with the same resolver instance
	Dec  string `json:"dec"`            // goast-guess | goast-map | gotypes
	// Reuse (file pairs): "" fresh Restorer per file | "restorer" one Restorer for both files | "filerestorer" one FileRestorer for both
	Reuse string `json:"reuse,omitempty"`
	Res   string `json:"res"` // guess | simple | guess-map | gobuild-hints | gobuild-find
}

var c08Decs = []string{"goast-guess", "goast-map", "gotypes"}
var c08Ress = []string{"guess", "simple", "guess-map", "gobuild-hints", "gobuild-find"}

func importTemplates() []gen.Template { return gen.Load("imports.txt") }

var stdWorld = oracle.StdWorld()
var stdNames = func() map[string]string {
	m := stdWorld.Names()
	m["C"] = "C" // the cgo pseudo package, for files type-checked with FakeImportC
	return m
}()

func init() {
	core.Register(&core.Prop{
		ID:    "C08",
		Level: "model_checking",
		Rule: "choice-tree exploration: every import-bearing template x <=k (quick 2, thorough 3 on small templates) insertions of {/*c*/, // c, newline, blank line, multi-line comment} into any gap (including both sides of the dot of qualified identifiers), gofmt-canonicalised and deduplicated, " +
			"x decorator resolver {goast+guess, goast+map, gotypes over go/types Uses} x restorer resolver {guess, simple map, guess.WithMap, gobuild with hints, gobuild with a FindPackage hook} (only combinations that name every package correctly); " +
			"plus every ordered pair of templates decorated by two decorators (own file sets) that share one goast resolver, restored by a fresh Restorer each, by one Restorer, and by one FileRestorer; oracle: bytes identical to the input (also when the same tree is printed a second time, by a Restorer whose FileSet already holds a file) whenever the plain (no import management) round trip of that input is, and re-decorating the output yields the same (name, path) sequence; " +
			"state = (canonical text, resolver pair); non-trivial = file in which at least one identifier carries a path",
		Assumptions: []string{"dependency packages are the synthetic typed world (fmt, io, os, bytes, a.b/x, c.d/x, e.f/y-go)"},
		Units: func(tier string) []string {
			u := gapUnits(importTemplates(), c08Shards)
			for _, t := range importTemplates() {
				u = append(u, "shared-resolver/"+t.Name)
			}
			return append(u, siteUnits("C08")...)
		},
		Run: func(ctx *core.Ctx, unit int) {
			if n := len(importTemplates()) * (c08Shards + 1); unit >= n {
				siteRun(ctx, "C08", unit-n)
				return
			}
			if n := len(importTemplates()) * c08Shards; unit >= n {
				// one goast resolver instance decorating this file and then each other file, every file in
				// its own FileSet; both must round-trip (a resolver may be shared between decorators)
				a := importTemplates()[unit-n]
				for _, b := range importTemplates() {
					for _, dec := range []string{"goast-map", "goast-guess"} {
						for _, reuse := range []string{"", "restorer", "filerestorer"} {
							cs := c08Case{Src: a.Src, Src2: b.Src, Dec: dec, Res: "simple", Reuse: reuse}
							o, applicable := c08Shared(cs)
							if !applicable {
								continue
							}
							ctx.State("shared|"+a.Name+"|"+b.Name+"|"+dec+"|"+reuse, true)
							ctx.R.Transitions++
							ctx.Eval(cs, o)
						}
					}
				}
				return
			}
			ti, shard := splitUnit(unit, c08Shards)
			t := importTemplates()[ti]
			k := 2
			if ctx.Thorough() && len(gen.Gaps(t.Src)) <= 50 {
				k = 3
			}
			forEachCanonical(ctx, t, gen.Sigma, k, shard, c08Shards, func(gc GapCase) {
				plain, err := roundTrip(gc.Src)
				if err != nil || plain != gc.Src {
					ctx.Count("excluded: plain round trip not byte-exact (judged by C01)", 1)
					return
				}
				for di, d := range c08Decs {
					for ri, r := range c08Ress {
						if len(gc.Ins) >= 2 && di != ri && !ctx.Thorough() {
							continue // quick tier: full resolver cross product for <=1 insertion, the diagonal for 2
						}
						cs := c08Case{Src: gc.Src, Dec: d, Res: r}
						o, applicable := c08Check(cs)
						if !applicable {
							ctx.Count("excluded: resolver would misname a package / file does not type-check", 1)
							continue
						}
						ctx.Eval(cs, o)
					}
				}
				if len(gc.Ins) == 2 {
					ctx.Sample(c08Case{Src: gc.Src, Dec: "gotypes", Res: "simple"})
				}
			})
		},
		Check: func(c core.Case) core.Outcome {
			if sc, ok := siteDecode(c); ok {
				return siteCheck(sc, nil)
			}
			var cs c08Case
			if err := json.Unmarshal(c, &cs); err != nil {
				panic(err)
			}
			if cs.Src2 != "" {
				o, _ := c08Shared(cs)
				return o
			}
			o, _ := c08Check(cs)
			return o
		},
	})
}

// c08Shared decorates two files with one shared goast resolver (own FileSet and Decorator each) and
// restores both.
func c08Shared(cs c08Case) (core.Outcome, bool) {
	fail := func(key, f string, a ...interface{}) (core.Outcome, bool) {
		return core.Outcome{Key: key, Desc: fmt.Sprintf("one %s resolver shared by two decorators\n", cs.Dec) + fmt.Sprintf(f, a...) + "\nfirst file:\n" + cs.Src + "\nsecond file:\n" + cs.Src2}, true
	}
	var shared resolver.DecoratorResolver
	if cs.Dec == "goast-guess" {
		for _, src := range []string{cs.Src, cs.Src2} {
			af, err := parser.ParseFile(token.NewFileSet(), "", src, parser.ImportsOnly)
			if err != nil || !guessable(unaliasedImports(af)) {
				return core.Outcome{OK: true}, false
			}
		}
		shared = goast.New()
	} else {
		shared = goast.WithResolver(simple.New(stdNames))
	}
	oneRestorer := decorator.NewRestorerWithImports(localPath, simple.New(stdNames))
	oneFileRestorer := decorator.NewRestorerWithImports(localPath, simple.New(stdNames)).FileRestorer()
	for i, src := range []string{cs.Src, cs.Src2} {
		if strings.Contains(src, "import \"C\"") {
			continue
		}
		plain, err := roundTrip(src)
		if err != nil || plain != src {
			return core.Outcome{OK: true}, false
		}
		d := decorator.NewDecoratorWithImports(token.NewFileSet(), localPath, shared)
		var df *dst.File
		if p := guard(func() { df, err = d.Parse(src) }); p != "" {
			return fail("shared-resolver-panic", "file %d: %s", i+1, p)
		}
		if err != nil {
			return fail("shared-resolver-error", "file %d: %v", i+1, err)
		}
		var buf bytes.Buffer
		var rerr error
		if p := guard(func() {
			switch cs.Reuse {
			case "restorer":
				rerr = oneRestorer.Fprint(&buf, df)
			case "filerestorer":
				oneFileRestorer.Name = fmt.Sprintf("f%d.go", i)
				rerr = oneFileRestorer.Fprint(&buf, df)
			default:
				rerr = decorator.NewRestorerWithImports(localPath, simple.New(stdNames)).Fprint(&buf, df)
			}
		}); p != "" {
			return fail("pair-restore-panic:"+cs.Reuse, "file %d: %s", i+1, p)
		}
		if rerr != nil {
			return fail("shared-resolver-restore-error", "file %d: %v", i+1, rerr)
		}
		if buf.String() != src && c08SamePathMerged(src, buf.String()) {
			return core.Outcome{Known: c08F1, Desc: diffDesc(src, buf.String())}, true
		}
		if buf.String() != src {
			return fail("pair-bytes-differ:"+cs.Reuse, "file %d (decorator resolver shared with another decorator; restorer reuse %q) does not round-trip\n%s", i+1, cs.Reuse, diffDesc(src, buf.String()))
		}
	}
	return core.Outcome{OK: true}, true
}

// unaliasedImports returns the paths imported without a name.
func unaliasedImports(f *ast.File) []string {
	var out []string
	for _, is := range f.Imports {
		p, _ := strconv.Unquote(is.Path.Value)
		if is.Name == nil && p != "C" {
			out = append(out, p)
		}
	}
	return out
}

func guessable(paths []string) bool {
	// decided by the documented rule of the guess resolver (the last element of the path), not by asking
	// the library: a changed resolver must not redefine which files it is accountable for
	for _, p := range paths {
		if p[strings.LastIndex(p, "/")+1:] != stdNames[p] {
			return false
		}
	}
	return true
}

func allImportPaths(f *ast.File) []string {
	var out []string
	for _, is := range f.Imports {
		p, _ := strconv.Unquote(is.Path.Value)
		if p != "C" {
			out = append(out, p)
		}
	}
	return out
}

// decorateWith decorates src with the named decorator resolver; applicable=false if that resolver
// is not accurate for this file.
func decorateWith(src, dec string) (df *dst.File, d *decorator.Decorator, applicable bool, err error) {
	fset := token.NewFileSet()
	switch dec {
	case "gotypes":
		chk, cerr := stdWorld.Check(localPath, map[string]string{"a.go": src})
		if cerr != nil {
			return nil, nil, false, nil
		}
		// (cgo files are type-checked with types.Config.FakeImportC, which makes "C" a package whose
		// references collapse like any other qualified identifier; restorer resolvers name it "C")
		d = decorator.NewDecoratorWithImports(chk.Fset, localPath, gotypes.New(chk.Info.Uses))
		df, err = d.DecorateFile(chk.Files[0])
		return df, d, true, err
	case "goast-guess", "goast-map":
		af, perr := parser.ParseFile(fset, "a.go", src, parser.ParseComments)
		if perr != nil {
			return nil, nil, false, nil
		}
		var rr resolver.DecoratorResolver
		if dec == "goast-guess" {
			if !guessable(unaliasedImports(af)) {
				return nil, nil, false, nil
			}
			rr = goast.New()
		} else {
			rr = goast.WithResolver(simple.New(stdNames))
		}
		d = decorator.NewDecoratorWithImports(fset, localPath, rr)
		df, err = d.DecorateFile(af)
		return df, d, true, err
	}
	panic("unknown decorator resolver " + dec)
}

func restorerResolver(res string) resolver.RestorerResolver {
	switch res {
	case "guess":
		return guess.New()
	case "simple":
		return simple.New(stdNames)
	case "guess-map":
		return guess.WithMap(stdNames)
	case "gobuild-hints":
		return gobuild.WithHints("", stdNames)
	case "gobuild-find":
		// the documented hook for build systems that do not follow the go build layout
		return &gobuild.RestorerResolver{FindPackage: func(_ *build.Context, importPath, _ string, _ build.ImportMode) (*build.Package, error) {
			if n, ok := stdNames[importPath]; ok {
				return &build.Package{Name: n}, nil
			}
			return nil, nil
		}}
	}
	panic("unknown restorer resolver " + res)
}

func identPaths(f *dst.File) []string { return identPathsOf(f) }

func identPathsOf(root dst.Node) []string {
	var out []string
	dst.Inspect(root, func(n dst.Node) bool {
		if id, ok := n.(*dst.Ident); ok {
			out = append(out, id.Name+"@"+id.Path)
		}
		return true
	})
	return out
}

func c08Check(cs c08Case) (core.Outcome, bool) {
	fail := func(key, f string, a ...interface{}) (core.Outcome, bool) {
		return core.Outcome{Key: key, Desc: fmt.Sprintf("decorator resolver %s, restorer resolver %s\n", cs.Dec, cs.Res) + fmt.Sprintf(f, a...) + "\ninput:\n" + cs.Src}, true
	}
	var df *dst.File
	var applicable bool
	var err error
	if p := guard(func() { df, _, applicable, err = decorateWith(cs.Src, cs.Dec) }); p != "" {
		return fail("decorate-panic:"+short(p, 60), "decoration panicked: %s", p)
	}
	if !applicable {
		return core.Outcome{OK: true}, false
	}
	if err != nil {
		return fail("decorate-error", "decoration failed: %v", err)
	}
	if cs.Res == "guess" {
		af, _ := parser.ParseFile(token.NewFileSet(), "", cs.Src, parser.ImportsOnly)
		if !guessable(allImportPaths(af)) {
			return core.Outcome{OK: true}, false
		}
	}
	before := identPaths(df)
	withPath := 0
	for _, s := range before {
		if !strings.HasSuffix(s, "@") {
			withPath++
		}
	}
	r := decorator.NewRestorerWithImports(localPath, restorerResolver(cs.Res))
	var buf bytes.Buffer
	if p := guard(func() { err = r.Fprint(&buf, df) }); p != "" {
		return fail("restore-panic:"+short(p, 60), "restore panicked: %s", p)
	}
	if err != nil {
		return fail("restore-error", "restore failed: %v", err)
	}
	out := buf.String()
	if out != cs.Src && c08SamePathMerged(cs.Src, out) {
		return core.Outcome{Known: c08F1, Desc: diffDesc(cs.Src, out)}, true
	}
	if out != cs.Src {
		return fail("bytes-differ:"+c01Class(cs.Src, out), "import-managed round trip is not byte-exact (%d identifiers carried a path)\n%s", withPath, diffDesc(cs.Src, out))
	}
	// still nothing changed: the same tree printed once more, by a Restorer whose FileSet already holds
	// a file, reproduces the bytes again
	var buf2 bytes.Buffer
	if p := guard(func() {
		err = lateRestorer(decorator.NewRestorerWithImports(localPath, restorerResolver(cs.Res))).Fprint(&buf2, df)
	}); p != "" {
		return fail("second-restore-panic:"+short(p, 60), "restoring the same tree a second time panicked: %s", p)
	}
	if err != nil {
		return fail("second-restore-error", "restoring the same tree a second time failed: %v", err)
	}
	if buf2.String() != cs.Src {
		return fail("second-print-differs:"+c01Class(cs.Src, buf2.String()), "the same unedited tree, printed a second time through a Restorer whose FileSet already holds a file, is not byte-exact\n%s", diffDesc(cs.Src, buf2.String()))
	}
	df2, _, ok2, err := decorateWith(out, cs.Dec)
	if !ok2 || err != nil {
		return fail("redecorate-error", "re-decorating the output failed: %v", err)
	}
	after := identPaths(df2)
	if strings.Join(before, " ") != strings.Join(after, " ") {
		return fail("paths-change-on-redecoration", "path annotations differ after re-decoration:\nbefore: %v\nafter:  %v", before, after)
	}
	if withPath == 0 {
		return core.Outcome{OK: true}, true
	}
	return core.Outcome{OK: true}, true
}

const c08F1 = "C08-F1-path-imported-twice-under-two-names"

// c08SamePathMerged recognises known finding C08-F1 by its exact effect: the input imports one path under two
// different ordinary names, and the output is the same program with those imports merged into one (same set of
// import paths, each once; the same identifiers and literals in the same order outside the import declarations,
// where a package qualifier counts as the path it is bound to).
func c08SamePathMerged(src, out string) bool {
	if !core.IsKnown(c08F1) {
		return false
	}
	type view struct {
		paths  []string
		twice  bool
		tokens []string
	}
	look := func(text string) (v view, ok bool) {
		fset := token.NewFileSet()
		af, err := parser.ParseFile(fset, "a.go", text, parser.ParseComments)
		if err != nil {
			return v, false
		}
		bound := map[string]string{}
		names := map[string]map[string]bool{}
		for _, is := range af.Imports {
			p, _ := strconv.Unquote(is.Path.Value)
			name := stdNames[p]
			if name == "" {
				name = p[strings.LastIndex(p, "/")+1:]
			}
			if is.Name != nil {
				name = is.Name.Name
			}
			if name == "_" || name == "." {
				v.paths = append(v.paths, name+p)
				continue
			}
			bound[name] = p
			if names[p] == nil {
				names[p] = map[string]bool{}
				v.paths = append(v.paths, p)
			}
			names[p][name] = true
			if len(names[p]) > 1 {
				v.twice = true
			}
		}
		sort.Strings(v.paths)
		for _, d := range af.Decls {
			if gd, isGen := d.(*ast.GenDecl); isGen && gd.Tok == token.IMPORT {
				continue
			}
			ast.Inspect(d, func(n ast.Node) bool {
				switch n := n.(type) {
				case *ast.SelectorExpr:
					if x, isId := n.X.(*ast.Ident); isId && x.Obj == nil && bound[x.Name] != "" {
						v.tokens = append(v.tokens, "<"+bound[x.Name]+">."+n.Sel.Name)
						return false
					}
				case *ast.Ident:
					v.tokens = append(v.tokens, n.Name)
				case *ast.BasicLit:
					v.tokens = append(v.tokens, n.Value)
				}
				return true
			})
		}
		return v, true
	}
	a, ok1 := look(src)
	b, ok2 := look(out)
	return ok1 && ok2 && a.twice && !b.twice && strings.Join(a.paths, " ") == strings.Join(b.paths, " ") && strings.Join(a.tokens, " ") == strings.Join(b.tokens, " ")
}
