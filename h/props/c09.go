package props

import (
	"encoding/json"
	"fmt"
	"go/ast"
	"go/parser"
	"go/token"
	"go/types"
	"strings"

	"github.com/dave/dst"
	"github.com/dave/dst/decorator"
	"github.com/dave/dst/decorator/resolver/goast"
	"github.com/dave/dst/decorator/resolver/gotypes"
	"github.com/dave/dst/decorator/resolver/simple"

	"golang.org/x/tools/go/packages"

	"verif/core"
	"verif/oracle"
)

// C09: decorator resolvers assign package paths exactly to remote references.

const c09Dep = `package dep

type T struct{ F int }

func (T) M() int { return 0 }

type N int

type I interface{ M() int }

type G[P any] struct{ P P }

func Fn() T { return T{} }

var V T

var W int

const K = 1
`

// dependency import strings and their real package paths
var c09DepPaths = []struct{ Import, Real string }{
	{"dep", "dep"},
	{"ex.com/dep", "ex.com/dep"},
	{"ex.com/dep", "root/vendor/ex.com/dep"},
	{"ex.com/dep", "root/vendor/a.org/x/vendor/ex.com/dep"}, // nested vendoring: the last /vendor/ counts
	{"ex.com/dep", "vendor/ex.com/dep"},                     // vendor directory at the root
}

const c09Local = "root/cmd"

// where the local package lives and what the Decorator is told its path is: local references must
// stay bare in all three (the local package may itself be vendored; both sides are vendor-stripped)
var c09Locals = []struct{ Real, Given string }{
	{c09Local, c09Local},
	{"root/vendor/l.org/cmd", "root/vendor/l.org/cmd"},
	{"root/vendor/l.org/cmd", "l.org/cmd"},
}

// roles: {Q} is the qualifier ("dep.", "al." or "" for dot-imports)
var c09Roles = []string{
	"var r1 = {Q}Fn()",
	"var r2 {Q}T",
	"var r3 = {Q}N(1)",
	"var r4 = {Q}T{F: 1}",
	"var r5 = map[int]int{{Q}K: 1}",
	"var r6 = {Q}V.M",
	"var r6b = {Q}Fn().M()",
	"var r7 = {Q}Fn().F",
	"type R8 struct{ {Q}T }",
	"type R9 struct{ *{Q}T }",
	"var r10 {Q}G[int]",
	"var r10b {Q}G[{Q}T]",
	"type R11 interface{ {Q}I }",
	"func r12(a {Q}T) {Q}N { return 0 }",
	"func r13() {\nL:\n\tfor {\n\t\tbreak L\n\t}\n}",
	"func r14() {\n\tFn := 1\n\t_ = Fn\n\ttype T int\n\tvar _ T\n}",
	"var r15 = len(\"x\")\n\nvar r15b error\n\nvar r15c = nil == interface{}(nil)",
	"type L16 int\n\nconst c16 = 1\n\nvar v16 L16 = c16\n\nfunc f16(p L16) L16 { return p + v16 }",
	"var r17 = {Q}T.M",
	"var r18 = []{Q}T{{F: 1}, {F: {Q}K}}",
	"func r19(i interface{}) {\n\t_ = i.({Q}T)\n\tswitch i.(type) {\n\tcase {Q}N:\n\t}\n}",
	"type S21 struct{ Fn, K int }\n\nvar r21 = S21{Fn: 1, K: 2}",
	"var r22 chan {Q}T\n\nvar r22b func({Q}T) {Q}N",
	"const r23 = {Q}K + 1",
	"var r24 = &{Q}W\n\nvar r24b *{Q}T",
	"var r25 = {Q}V.F",
	"func r26() {\n\tv := {Q}V\n\tv.F = {Q}K\n\t_ = v.M()\n}",
	"func (R8b) M2() {Q}T { return {Q}V }\n\ntype R8b struct{}",
	// uses of type parameters, of a function-local constant and type, of a generic local type
	"func r27[P any](p P) P {\n\tvar q P\n\t_ = q\n\treturn p\n}\n\ntype R27[E any] struct{ e E }\n\nfunc (r R27[E]) get() E { return r.e }",
	"func r28() {Q}N {\n\tconst step = 2\n\ttype acc {Q}N\n\tvar a acc = step\n\treturn {Q}N(a) + step\n}",
}

// shadowing snippets: {N} is the name the import is bound to
var c09Shadows = []string{
	"",
	"func s1() {\n\t{N} := struct{ Fn func() int }{}\n\t_ = {N}.Fn\n}",
	"func s2({N} struct{ V int }) int { return {N}.V }",
	"func s3() {\n{N}:\n\tfor {\n\t\tbreak {N}\n\t}\n}",
	"type S4 struct{ {N} int }\n\nfunc s4(s S4) int { return s.{N} }",
}

var c09Styles = []string{"plain", "alias", "dot"}

type c09Case struct {
	Dep    int    `json:"dep"`
	Style  string `json:"style"`
	Roles  []int  `json:"roles"`
	Shadow int    `json:"shadow"`
	Second bool   `json:"second"`           // also import a second package with the same name under an alias
	Local  int    `json:"local,omitempty"`  // index into c09Locals
	Blanks bool   `json:"blanks,omitempty"` // the file also has two blank imports
	Src    string `json:"src,omitempty"`
}

func c09Source(cs c09Case) string {
	d := c09DepPaths[cs.Dep]
	var b strings.Builder
	b.WriteString("package main\n\n")
	q, name := "dep.", "dep"
	switch cs.Style {
	case "plain":
		fmt.Fprintf(&b, "import %q\n", d.Import)
	case "alias":
		fmt.Fprintf(&b, "import al %q\n", d.Import)
		q, name = "al.", "al"
	case "dot":
		fmt.Fprintf(&b, "import . %q\n", d.Import)
		q, name = "", ""
	}
	if cs.Second {
		b.WriteString("\nimport d2 \"other.org/dep\"\n\nvar second = d2.Fn()\n")
	}
	if cs.Blanks {
		b.WriteString("\nimport (\n\t_ \"x.org/blank1\"\n\t_ \"x.org/blank2\"\n)\n")
	}
	b.WriteString("\nconst base = " + q + "K\n") // every file uses its import
	for _, r := range cs.Roles {
		b.WriteString("\n" + strings.ReplaceAll(c09Roles[r], "{Q}", q) + "\n")
	}
	if cs.Shadow > 0 && name != "" {
		b.WriteString("\n" + strings.ReplaceAll(c09Shadows[cs.Shadow], "{N}", name) + "\n")
	}
	b.WriteString("\nfunc main() {}\n")
	return b.String()
}

func c09World(dep int) *oracle.World {
	d := c09DepPaths[dep]
	w := oracle.NewWorld(map[string]string{d.Import: c09Dep, "other.org/dep": c09Dep, "x.org/blank1": "package blank1\n", "x.org/blank2": "package blank2\n"})
	w.Real = map[string]string{d.Import: d.Real}
	return w
}

func stripVendorRef(path string) string {
	if i := strings.LastIndex(path, "/vendor/"); i >= 0 {
		return path[i+len("/vendor/"):]
	}
	return strings.TrimPrefix(path, "vendor/")
}

func init() {
	core.Register(&core.Prop{
		ID:    "C09",
		Level: "model_checking",
		Rule: "typed worlds: a dependency under 5 paths (plain, dotted, vendored, nested-vendored, root vendor directory) x import style {plain, alias, dot} x every role of a 30-role catalogue singly (each file also decorated with ResolveLocalPath: local package-level objects carry the local path, function-local objects and type parameters none) x 5 shadowing modes x with/without a second import of an equally named package x with/without two blank imports x (single roles) 3 locations of the local package itself (plain; inside a vendor directory with the Decorator told the full path; same, told the stripped path), and every ordered pair of roles (quick: 2 shadowing modes; thorough: all 5, with/without the second import); " +
			"only files that type-check are in the quantifier; the same annotation is required from DecorateFile, from DecorateNode on every declaration alone and on a package node, from NewDecoratorFromPackage and from a Decorator configured through its fields; oracle computed from go/types: an identifier carries the vendor-stripped path of its object's package iff the object is a package-level object of another package, else none (qualified selectors collapse onto one identifier); " +
			"the syntax-only resolver must agree on files without dot-imports and without shadowing, and must return an error for dot-imports and for two imports bound to one name, also when the same resolver instance is asked again about the same file; state = generated file; non-trivial = file with at least one remote reference",
		Assumptions: []string{"go/types of this toolchain defines what an identifier denotes", "programs range over the role catalogue"},
		Units: func(tier string) []string {
			var u []string
			for d := range c09DepPaths {
				for _, s := range c09Styles {
					u = append(u, fmt.Sprintf("dep%d/%s", d, s))
				}
			}
			return u
		},
		Run: func(ctx *core.Ctx, unit int) {
			d, style := unit/3, c09Styles[unit%3]
			var roleSets [][]int
			for i := range c09Roles {
				roleSets = append(roleSets, []int{i})
				{
					for j := range c09Roles {
						if i != j {
							roleSets = append(roleSets, []int{i, j})
						}
					}
				}
			}
			for _, rs := range roleSets {
				for sh := range c09Shadows {
					for _, second := range []bool{false, true} {
						if ctx.Expired() {
							ctx.Cut("roles")
							return
						}
						if len(rs) == 2 && !ctx.Thorough() && (sh > 1 || second) {
							continue // quick tier: role pairs without the extra shadow modes / second import
						}
						for local := range c09Locals {
							if local > 0 && (len(rs) != 1 || second || sh > 1) {
								continue // the local package's own location: single roles
							}
							for _, blanks := range []bool{false, true} {
								if blanks && (len(rs) != 1 || sh > 0 || local > 0) {
									continue // two blank imports next to the import under test: single roles
								}
								cs := c09Case{Dep: d, Style: style, Roles: rs, Shadow: sh, Second: second, Local: local, Blanks: blanks}
								o, applicable, remote := c09Check(cs)
								if !applicable {
									ctx.Count("excluded: generated file does not type-check", 1)
									if len(rs) == 1 {
										ctx.Count(fmt.Sprintf("excluded role %d style %s shadow %d", rs[0], style, sh), 1)
									}
									continue
								}
								cs.Src = c09Source(cs)
								ctx.State(fmt.Sprint(local, blanks, cs.Src), remote > 0)
								ctx.R.Transitions++
								ctx.Eval(cs, o)
								if sh == 1 && len(rs) == 1 && rs[0] == 3 {
									ctx.Sample(cs)
								}
							}
						}
					}
				}
			}
			// goast must refuse two imports bound to one name
			cs := c09Case{Dep: d, Style: "conflict"}
			ctx.CountState(true)
			ctx.Eval(cs, c09Conflict(d))
		},
		Check: func(c core.Case) core.Outcome {
			var cs c09Case
			if err := json.Unmarshal(c, &cs); err != nil {
				panic(err)
			}
			if cs.Style == "conflict" {
				return c09Conflict(cs.Dep)
			}
			o, _, _ := c09Check(cs)
			return o
		},
	})
}

func c09Conflict(dep int) core.Outcome {
	d := c09DepPaths[dep]
	src := fmt.Sprintf("package main\n\nimport %q\n\nimport dep \"other.org/dep\"\n\nvar x = dep.Fn()\n", d.Import)
	fset := token.NewFileSet()
	af, err := parser.ParseFile(fset, "a.go", src, parser.ParseComments)
	if err != nil {
		panic(err)
	}
	dec := decorator.NewDecoratorWithImports(fset, c09Local, goast.WithResolver(simple.New(map[string]string{d.Import: "dep", "other.org/dep": "dep"})))
	var derr error
	var df *dst.File
	if p := guard(func() { df, derr = dec.DecorateFile(af) }); p != "" {
		return core.Outcome{Key: "goast-conflict-panic", Desc: "goast panicked on two imports bound to one name: " + p}
	}
	if derr == nil || df != nil {
		return core.Outcome{Key: "goast-guesses-on-name-conflict", Desc: "goast resolved a file in which two imports are bound to the name dep instead of returning an error\n" + src}
	}
	for attempt := 2; attempt <= 3; attempt++ {
		dec2 := decorator.NewDecoratorWithImports(fset, c09Local, dec.Resolver)
		if p := guard(func() { df, derr = dec2.DecorateFile(af) }); p != "" {
			return core.Outcome{Key: "goast-conflict-panic", Desc: "goast panicked when asked again: " + p}
		}
		if derr == nil || df != nil {
			return core.Outcome{Key: "goast-guesses-on-name-conflict-when-asked-again", Desc: fmt.Sprintf("attempt %d with the same resolver: a tree instead of an error\n%s", attempt, src)}
		}
	}
	return core.Outcome{OK: true}
}

func c09Check(cs c09Case) (out core.Outcome, applicable bool, remote int) {
	src := c09Source(cs)
	fail := func(key, f string, a ...interface{}) (core.Outcome, bool, int) {
		return core.Outcome{Key: key, Desc: fmt.Sprintf(f, a...) + "\nfile:\n" + src}, true, 1
	}
	w := c09World(cs.Dep)
	chk, err := w.Check(c09Locals[cs.Local].Real, map[string]string{"a.go": src})
	if err != nil {
		return core.Outcome{OK: true}, false, 0
	}
	af := chk.Files[0]
	dec := decorator.NewDecoratorWithImports(chk.Fset, c09Locals[cs.Local].Given, gotypes.New(chk.Info.Uses))
	var df *dst.File
	if p := guard(func() { df, err = dec.DecorateFile(af) }); p != "" {
		return fail("gotypes-panic", "decoration with the types-based resolver panicked: %s", p)
	}
	if err != nil {
		return fail("gotypes-error", "decoration with the types-based resolver failed: %v", err)
	}
	// the constructor decorator.Load uses (NewDecoratorFromPackage) must annotate identically
	{
		dec2 := decorator.NewDecoratorFromPackage(&packages.Package{Fset: chk.Fset, PkgPath: c09Locals[cs.Local].Given, TypesInfo: chk.Info})
		var df2 *dst.File
		var err2 error
		if p := guard(func() { df2, err2 = dec2.DecorateFile(af) }); p != "" || err2 != nil {
			return fail("from-package-decorator-fails", "NewDecoratorFromPackage(...).DecorateFile: panic %q error %v", p, err2)
		}
		if a, b := identPaths(df), identPaths(df2); strings.Join(a, " ") != strings.Join(b, " ") {
			return fail("from-package-decorator-differs", "NewDecoratorFromPackage annotates differently from NewDecoratorWithImports(gotypes.New(Uses)):\n%v\n%v", a, b)
		}
		// and a Decorator configured through its exported fields (the documented alternative to the constructor)
		dec3 := decorator.NewDecorator(chk.Fset)
		dec3.Path = c09Locals[cs.Local].Given
		dec3.Resolver = gotypes.New(chk.Info.Uses)
		var df3 *dst.File
		var err3 error
		if p := guard(func() { df3, err3 = dec3.DecorateFile(af) }); p != "" || err3 != nil {
			return fail("field-configured-decorator-fails", "NewDecorator + Path + Resolver: panic %q error %v", p, err3)
		}
		if a, b := identPaths(df), identPaths(df3); strings.Join(a, " ") != strings.Join(b, " ") {
			return fail("field-configured-decorator-differs", "a Decorator configured through its Path and Resolver fields annotates differently from NewDecoratorWithImports:\n%v\n%v", a, b)
		}
	}
	// other entry points of the same classification: DecorateNode on every top-level declaration alone and
	// on a package node holding the file (neither hands the resolver a current file)
	for i, decl := range af.Decls {
		dn := decorator.NewDecoratorWithImports(chk.Fset, c09Locals[cs.Local].Given, gotypes.New(chk.Info.Uses))
		var node dst.Node
		var nerr error
		if p := guard(func() { node, nerr = dn.DecorateNode(decl) }); p != "" || nerr != nil {
			return fail("isolated-declaration-fails", "DecorateNode(declaration %d): panic %q error %v", i, p, nerr)
		}
		if a, b := identPathsOf(df.Decls[i]), identPathsOf(node); strings.Join(a, " ") != strings.Join(b, " ") {
			return fail("isolated-declaration-differs", "declaration %d decorated alone is annotated differently from the same declaration inside its file:\nin file: %v\nalone:   %v", i, a, b)
		}
	}
	{
		dp := decorator.NewDecoratorWithImports(chk.Fset, c09Locals[cs.Local].Given, gotypes.New(chk.Info.Uses))
		var node dst.Node
		var nerr error
		if p := guard(func() {
			node, nerr = dp.DecorateNode(&ast.Package{Name: "main", Files: map[string]*ast.File{"a.go": af}})
		}); p != "" || nerr != nil {
			return fail("package-node-fails", "DecorateNode(*ast.Package): panic %q error %v", p, nerr)
		}
		pf := node.(*dst.Package).Files["a.go"]
		if pf == nil {
			return fail("package-node-fails", "file missing in the decorated package")
		}
		if a, b := identPaths(df), identPaths(pf); strings.Join(a, " ") != strings.Join(b, " ") {
			return fail("package-node-differs", "the file decorated as part of a package node is annotated differently:\nfile:    %v\npackage: %v", a, b)
		}
	}
	// expected path per ast identifier
	want := map[*ast.Ident]string{}
	pkgLevelRemote := func(obj types.Object) string {
		if obj == nil || obj.Pkg() == nil || obj.Pkg() == chk.Pkg {
			return ""
		}
		if _, isPkgName := obj.(*types.PkgName); isPkgName {
			return ""
		}
		if obj.Parent() != obj.Pkg().Scope() {
			return "" // fields, methods, parameters...
		}
		return stripVendorRef(obj.Pkg().Path())
	}
	selOfX := map[*ast.Ident]*ast.SelectorExpr{}
	ast.Inspect(af, func(n ast.Node) bool {
		if se, ok := n.(*ast.SelectorExpr); ok {
			if x, ok := se.X.(*ast.Ident); ok {
				selOfX[x] = se
			}
		}
		return true
	})
	qualified := map[*ast.SelectorExpr]string{}
	ast.Inspect(af, func(n ast.Node) bool {
		id, ok := n.(*ast.Ident)
		if !ok {
			return true
		}
		if se, ok := selOfX[id]; ok {
			if pn, ok := chk.Info.Uses[id].(*types.PkgName); ok {
				p := stripVendorRef(pn.Imported().Path())
				qualified[se] = p
				want[id] = p
				want[se.Sel] = p
				return true
			}
		}
		if _, done := want[id]; !done {
			want[id] = pkgLevelRemote(chk.Info.Uses[id])
		}
		return true
	})
	var ordered []*ast.Ident
	ast.Inspect(af, func(n ast.Node) bool {
		if id, ok := n.(*ast.Ident); ok {
			ordered = append(ordered, id)
		}
		return true
	})
	for _, id := range ordered {
		p := want[id]
		if p != "" {
			remote++
		}
		d, ok := dec.Dst.Nodes[id]
		if !ok {
			return fail("ident-unmapped", "identifier %s has no dst counterpart", id.Name)
		}
		di, ok := d.(*dst.Ident)
		if !ok {
			return fail("ident-maps-to-non-ident", "identifier %s maps to %T", id.Name, d)
		}
		if di.Path != p {
			role := "identifier"
			if _, isX := selOfX[id]; isX {
				role = "qualifier"
			}
			return fail(fmt.Sprintf("gotypes-path:%s:want=%v", role, p != ""), "%s %s at %s: types-based resolver gave path %q, go/types says %q", role, id.Name, chk.Fset.Position(id.Pos()), di.Path, p)
		}
	}
	// the same file with Decorator.ResolveLocalPath set: package-level objects of the local package carry the local
	// path as well; everything declared inside a function (variables, constants, types, type parameters, labels),
	// fields and methods still carry none
	{
		decL := decorator.NewDecoratorWithImports(chk.Fset, c09Locals[cs.Local].Given, gotypes.New(chk.Info.Uses))
		decL.ResolveLocalPath = true
		var errL error
		if p := guard(func() { _, errL = decL.DecorateFile(af) }); p != "" || errL != nil {
			return fail("resolve-local-path-fails", "decoration with ResolveLocalPath: panic %q error %v", p, errL)
		}
		for _, id := range ordered {
			p := want[id]
			if obj := chk.Info.Uses[id]; p == "" && obj != nil && obj.Pkg() == chk.Pkg && obj.Parent() == chk.Pkg.Scope() {
				if _, isPkgName := obj.(*types.PkgName); !isPkgName {
					p = stripVendorRef(chk.Pkg.Path())
				}
			}
			di, ok := decL.Dst.Nodes[id].(*dst.Ident)
			if !ok {
				return fail("ident-unmapped", "ResolveLocalPath: identifier %s has no dst identifier", id.Name)
			}
			if di.Path != p {
				return fail(fmt.Sprintf("gotypes-path:resolve-local-path:want=%v", p != ""), "with ResolveLocalPath, identifier %s at %s: path %q, go/types says %q (only package-level objects carry a path)", id.Name, chk.Fset.Position(id.Pos()), di.Path, p)
			}
		}
	}
	// qualified selectors must have collapsed onto one identifier carrying the selected name
	for se := range qualified {
		d := dec.Dst.Nodes[se]
		di, ok := d.(*dst.Ident)
		if !ok || di.Name != se.Sel.Name {
			return fail("qualified-selector-not-collapsed", "qualified identifier %s.%s did not collapse onto one path-carrying identifier (%T)", se.X.(*ast.Ident).Name, se.Sel.Name, d)
		}
	}
	// syntax-only resolver
	names := map[string]string{c09DepPaths[cs.Dep].Import: "dep", "other.org/dep": "dep"}
	fset2 := token.NewFileSet()
	af2, err := parser.ParseFile(fset2, "a.go", src, parser.ParseComments)
	if err != nil {
		panic(err)
	}
	dec2 := decorator.NewDecoratorWithImports(fset2, c09Locals[cs.Local].Given, goast.WithResolver(simple.New(names)))
	var df2 *dst.File
	if p := guard(func() { df2, err = dec2.DecorateFile(af2) }); p != "" {
		return fail("goast-panic", "decoration with the syntax-based resolver panicked: %s", p)
	}
	if cs.Style == "dot" {
		if err == nil || df2 != nil {
			return fail("goast-guesses-on-dot-import", "the syntax-based resolver returned a tree for a file with a dot-import instead of an error")
		}
		// asking the same resolver again (a fresh decorator, the same file) must not turn the refusal into a guess
		for attempt := 2; attempt <= 3; attempt++ {
			dec3 := decorator.NewDecoratorWithImports(fset2, c09Local, dec2.Resolver)
			var df3 *dst.File
			if p := guard(func() { df3, err = dec3.DecorateFile(af2) }); p != "" {
				return fail("goast-panic", "attempt %d with the same resolver panicked: %s", attempt, p)
			}
			if err == nil || df3 != nil {
				return fail("goast-guesses-on-dot-import-when-asked-again", "attempt %d: the syntax-based resolver, asked again about the same file with a dot-import, returned a tree instead of an error", attempt)
			}
		}
		return core.Outcome{OK: true}, true, remote
	}
	if err != nil {
		return fail("goast-error", "the syntax-based resolver failed on a file without dot-imports: %v", err)
	}
	// "whose package names are not shadowed": shadow snippets 1-3 shadow the name by a local declaration
	// (the syntax-based resolver still has to agree there thanks to the parser's object resolution; a
	// field named like the package is not shadowing at all)
	a, b := identPaths(df), identPaths(df2)
	if strings.Join(a, " ") != strings.Join(b, " ") {
		return fail("goast-disagrees-with-gotypes", "the syntax-based resolver disagrees with the types-based one\ngotypes: %v\ngoast:   %v", a, b)
	}
	return core.Outcome{OK: true}, true, remote
}
