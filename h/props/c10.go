package props

import (
	"bytes"
	"encoding/json"
	"fmt"
	"go/ast"
	"go/types"
	"regexp"
	"strconv"
	"strings"

	"github.com/dave/dst"
	"github.com/dave/dst/decorator"
	"github.com/dave/dst/decorator/resolver/gotypes"
	"github.com/dave/dst/decorator/resolver/simple"

	"verif/core"
	"verif/oracle"
)

// C10: moving code between files or packages preserves what it refers to.

var c10Paths = []string{"a.b/x", "c.d/x", "e.f/y-go"}
var c10Names = []string{"x", "x", "y"}

const (
	c10SrcPath = "m/src"
	c10TgtPath = "m/tgt"
)

// styles: 0 absent, 1 plain, 2 alias, 3 dot, 4 alias that is the package name of another dependency
var c10StyleNames = []string{"absent", "plain", "alias", "dot", "alias-named-like-other-package"}

// c10Collide[i] is the alias style 4 gives dependency i: the resolved name of a different dependency.
var c10Collide = []string{"y", "y", "x"}

type c10File struct {
	Pkg    string `json:"pkg"` // package path of the file
	Styles [3]int `json:"styles"`
	Prefix string `json:"prefix"` // alias prefix ("s", "t", "u")
}

type c10Case struct {
	Src     c10File  `json:"src"`
	Tgt     c10File  `json:"tgt"`
	Third   *c10File `json:"third,omitempty"`
	Item    string   `json:"item"`    // func | var | stmt | local
	Uses    int      `json:"uses"`    // bit set of dependencies used by the item
	History string   `json:"history"` // single | chain | two | back | clone | reuse | viadep | swap
	// Isolated: the moved declaration is decorated on its own (DecorateNode on the declaration), not as
	// part of its file
	Isolated bool `json:"isolated,omitempty"`
	Clash    bool `json:"clash,omitempty"` // the target dot-imports a package exporting the names of dependency 0
}

func c10World(extra map[string]string) *oracle.World {
	src := map[string]string{}
	for i, p := range c10Paths {
		src[p] = fmt.Sprintf("package %s\n\ntype T%d struct{}\n\nfunc F%d() {}\n\nvar V%d int\n\nconst K%d = %d\n\ntype G%d[P any] struct{}\n", c10Names[i], i, i, i, i, i, i)
	}
	// exports the names of dependency 0 as well: only ever dot-imported by a target (Clash)
	src["q.r/z"] = "package z\n\ntype T0 struct{}\n\nfunc F0() {}\n\nvar V0 int\n\nconst K0 = 0\n\ntype G0[P any] struct{}\n\nfunc Z9() {}\n"
	for k, v := range extra {
		src[k] = v
	}
	return oracle.NewWorld(src)
}

func c10Qual(f c10File, i int) string {
	switch f.Styles[i] {
	case 1:
		return c10Names[i] + "."
	case 2:
		return fmt.Sprintf("%s%d.", f.Prefix, i)
	case 3:
		return ""
	case 4:
		return c10Collide[i] + "."
	}
	return "?." // absent or blank import: the file itself cannot refer to the package
}

// c10Body renders the uses of dependency set `uses` with file f's qualifiers.
// references per dependency in a body (c10Body) and in the var item
const c10BodyRefs, c10VarRefs = 10, 4

func c10Body(f c10File, uses int, tag string) string {
	var b strings.Builder
	for i := range c10Paths {
		if uses&(1<<i) == 0 {
			continue
		}
		q := c10Qual(f, i)
		fmt.Fprintf(&b, "\t%sF%d()\n\tvar %s%d %sT%d = %sT%d{}\n\t_ = %s%d\n\t_ = %sV%d\n", q, i, tag, i, q, i, q, i, tag, i, q, i)
		// further reference positions: map-literal key, array-literal index key, type assertion
		fmt.Fprintf(&b, "\t_ = map[int]%sT%d{%sK%d: {}}\n\t_ = [...]int{%sK%d: 1}\n\t_, _ = interface{}(nil).(%sT%d)\n", q, i, q, i, q, i, q, i)
		// a generic type of the package instantiated with a type of the package
		fmt.Fprintf(&b, "\t_ = %sG%d[%sT%d]{}\n", q, i, q, i)
	}
	return b.String()
}

func c10Header(f c10File, pkgName string) string {
	var b strings.Builder
	fmt.Fprintf(&b, "package %s\n\n", pkgName)
	var specs []string
	for i, p := range c10Paths {
		switch f.Styles[i] {
		case 1:
			specs = append(specs, fmt.Sprintf("\t%q", p))
		case 2:
			specs = append(specs, fmt.Sprintf("\t%s%d %q", f.Prefix, i, p))
		case 3:
			specs = append(specs, fmt.Sprintf("\t. %q", p))
		case 4:
			specs = append(specs, fmt.Sprintf("\t%s %q", c10Collide[i], p))
		case 5:
			specs = append(specs, fmt.Sprintf("\t_ %q", p))
		}
	}
	if len(specs) > 0 {
		b.WriteString("import (\n" + strings.Join(specs, "\n") + "\n)\n\n")
	}
	return b.String()
}

func usedSet(f c10File) int {
	u := 0
	for i, s := range f.Styles {
		if s != 0 && s != 5 {
			u |= 1 << i
		}
	}
	return u
}

// c10SourceText: the source file holds the item (and a second item for the "two" history).
func c10SourceText(cs c10Case) string {
	f := cs.Src
	var b strings.Builder
	b.WriteString(c10Header(f, "src"))
	// keep every import of the source used, independent of the item
	b.WriteString("func keepSrc() {\n" + c10Body(f, usedSet(f), "k") + "}\n\n")
	b.WriteString("func Local() int { return 1 }\n\n")
	switch cs.Item {
	case "func":
		b.WriteString("func Item() {\n" + c10Body(f, cs.Uses, "a") + "}\n\n")
	case "local":
		b.WriteString("func Item() {\n" + c10Body(f, cs.Uses, "a") + "\t_ = Local()\n}\n\n")
	case "var":
		var elems []string
		for i := range c10Paths {
			if cs.Uses&(1<<i) != 0 {
				q := c10Qual(f, i)
				elems = append(elems, fmt.Sprintf("%sV%d, %sT%d{}, %sF%d, map[int]int{%sK%d: 1}", q, i, q, i, q, i, q, i))
			}
		}
		b.WriteString("var Item = []interface{}{" + strings.Join(elems, ", ") + "}\n\n")
	case "stmt":
		b.WriteString("func host() {\n\t{\n" + c10Body(f, cs.Uses, "a") + "\t}\n}\n\n")
	}
	b.WriteString("func Item2() {\n" + c10Body(f, cs.Uses, "b") + "}\n")
	return b.String()
}

func c10TargetText(f c10File, pkgName string, clash bool) string {
	var b strings.Builder
	h := c10Header(f, pkgName)
	extra := ""
	if clash {
		// a dot-imported package that also exports F0/T0/V0: harmless unless dependency 0 ends up dot-imported too
		if strings.Contains(h, "import (") {
			h = strings.Replace(h, "import (\n", "import (\n\t. \"q.r/z\"\n", 1)
		} else {
			h += "import . \"q.r/z\"\n\n"
		}
		extra = "\tZ9()\n"
	}
	b.WriteString(h)
	b.WriteString("func keepTgt() {\n" + extra + c10Body(f, usedSet(f), "k") + "}\n\nfunc slot() {\n}\n")
	return b.String()
}

func pkgNameOf(path string) string { return path[strings.LastIndex(path, "/")+1:] }

func init() {
	core.Register(&core.Prop{
		ID:    "C10",
		Level: "model_checking",
		Rule: "typed worlds: three dependencies (two named x, one whose name differs from its path); source file with import style per dependency in {plain, alias, dot} x moved item {function, function also using a source-local function (ResolveLocalPath), variable, statement} using each non-empty subset of the dependencies " +
			"x target file (same or another package; optionally dot-importing a further package that exports the same names as the first dependency) with style per dependency in {absent, plain, alias, dot, alias equal to the package name of another dependency, blank import} x histories {single move (quick tier: the further histories for function and statement items using all three dependencies; thorough: everywhere), chain through a third file, two items, move back, move a Clone, and (same package) the target restored by a FileRestorer that restored the source file first, the item resting in (and being restored inside) the package it refers to before it moves on, and a swap (quick: function items using one or all dependencies; the target's own code, the only user of its imports, moves out in the same edit)}; only type-correct source/target files are in the quantifier; decoration with the types-based resolver (of the whole source file, and of the moved declaration alone), restoration with an exact package-name map; " +
			"oracle: the restored target type-checks and every moved identifier denotes the object of the same package path and name; state = (source styles, target styles, item, uses, history); non-trivial = every state",
		Assumptions: []string{"go/types of this toolchain is the acceptance oracle", "no declaration of the generated targets shadows an import name (the property's proviso)"},
		Units: func(tier string) []string {
			var u []string
			for s := 0; s < 27; s++ {
				u = append(u, fmt.Sprintf("src-styles=%d", s))
			}
			return append(u, siteUnits("C10")...)
		},
		Run: runC10,
		Check: func(c core.Case) core.Outcome {
			if sc, ok := siteDecode(c); ok {
				return siteCheck(sc, nil)
			}
			var cs c10Case
			if err := json.Unmarshal(c, &cs); err != nil {
				panic(err)
			}
			o, _ := c10Check(cs)
			return o
		},
	})
}

func runC10(ctx *core.Ctx, unit int) {
	if unit >= 27 {
		siteRun(ctx, "C10", unit-27)
		return
	}
	var src c10File
	src.Pkg, src.Prefix = c10SrcPath, "s"
	x := unit
	for i := 0; i < 3; i++ {
		src.Styles[i] = 1 + x%3
		x /= 3
	}
	items := []string{"func", "var", "stmt", "local"}
	for t := 0; t < 216; t++ { // target styles 0-5 per dependency (5 = blank import)
		var tgt c10File
		tgt.Prefix = "t"
		y := t
		for i := 0; i < 3; i++ {
			tgt.Styles[i] = y % 6
			y /= 6
		}
		for _, tpkg := range []string{c10TgtPath, c10SrcPath} {
			tgt.Pkg = tpkg
			for _, item := range items {
				for uses := 1; uses < 8; uses++ {
					if !ctx.Thorough() {
						// quick tier: a dependency the item does not use appears in the target absent, plainly
						// imported, or under the colliding alias (aliased and dot-imported only in the thorough tier)
						skip := false
						for i := 0; i < 3; i++ {
							if uses&(1<<i) == 0 && (tgt.Styles[i] == 2 || tgt.Styles[i] == 3 || tgt.Styles[i] == 5) {
								skip = true
							}
						}
						if skip {
							continue
						}
					}
					hists := []string{"single"}
					if (uses == 7 && (item == "func" || item == "stmt")) || ctx.Thorough() {
						hists = []string{"single", "chain", "two", "back", "clone", "reuse", "viadep"}
					}
					if (item == "func" && (bitsSet(uses) == 1 || uses == 7) || ctx.Thorough()) && tpkg == c10TgtPath {
						// a swap: the item moves in while the target's own code (the only user of its imports) moves out
						hists = append(hists, "swap")
					}
					for _, h := range hists {
						for _, clash := range []bool{false, true} {
							if ctx.Expired() {
								ctx.Cut("targets")
								return
							}
							if clash && (uses&1 == 0 || tgt.Styles[0] == 3 || h != "single" && h != "reuse") {
								continue
							}
							if h != "single" && !ctx.Thorough() && (tgt.Styles[0] == 5 || tgt.Styles[1] == 5 || tgt.Styles[2] == 5) {
								continue // quick tier: blank-import targets in single moves only
							}
							cs := c10Case{Src: src, Tgt: tgt, Item: item, Uses: uses, History: h, Clash: clash}
							if h == "single" && !clash && item != "stmt" && (item == "func" && (uses == 7 || uses == 1) || ctx.Thorough()) {
								// the same move with the declaration decorated on its own
								ci := cs
								ci.Isolated = true
								if o, applicable := c10Check(ci); applicable {
									ctx.CountState(true)
									ctx.R.Transitions++
									ctx.Eval(ci, o)
								}
							}
							if h == "chain" {
								third := c10File{Pkg: "m/third", Prefix: "u", Styles: [3]int{tgt.Styles[2], tgt.Styles[0], tgt.Styles[1]}}
								cs.Third = &third
							}
							o, applicable := c10Check(cs)
							if !applicable {
								ctx.Count("excluded: source or target file not type-correct (e.g. both x packages imported plainly)", 1)
								continue
							}
							ctx.CountState(true)
							ctx.R.Transitions++
							ctx.Eval(cs, o)
							if uses == 5 && t == 27 && item == "func" {
								ctx.Sample(cs)
							}
						}
					}
				}
			}
		}
	}
}

type c10Loaded struct {
	file *dst.File
	chk  *oracle.Checked
}

func c10Load(w *oracle.World, path, text string, resolveLocal bool) (*c10Loaded, error) {
	// type-checking is the expensive part and its result is never modified: cached per worker
	key := path + "\x00" + text
	ent, ok := c10Checked[key]
	if !ok {
		if len(c10Checked) > 4000 {
			c10Checked = map[string]c10CheckedEnt{}
		}
		chk, err := w.Check(path, map[string]string{"f.go": text})
		ent = c10CheckedEnt{chk, err}
		c10Checked[key] = ent
	}
	if ent.err != nil {
		return nil, ent.err
	}
	chk := ent.chk
	dec := decorator.NewDecoratorWithImports(chk.Fset, path, gotypes.New(chk.Info.Uses))
	dec.ResolveLocalPath = resolveLocal
	f, err := dec.DecorateFile(chk.Files[0])
	if err != nil {
		return nil, fmt.Errorf("decorate: %w", err)
	}
	return &c10Loaded{file: f, chk: chk}, nil
}

var c10Ref = regexp.MustCompile(`^[FTVKG]([0-9])$`)

func findFunc(f *dst.File, name string) *dst.FuncDecl {
	for _, d := range f.Decls {
		if fd, ok := d.(*dst.FuncDecl); ok && fd.Name.Name == name {
			return fd
		}
	}
	return nil
}

// takeItem removes the item from the source file and returns it (decl or stmt).
func takeItem(f *dst.File, item, name string) (dst.Decl, dst.Stmt) {
	if item == "stmt" && name == "Item" {
		h := findFunc(f, "host")
		s := h.Body.List[0]
		h.Body.List = nil
		return nil, s
	}
	for i, d := range f.Decls {
		switch d := d.(type) {
		case *dst.FuncDecl:
			if d.Name.Name == name {
				f.Decls = append(f.Decls[:i:i], f.Decls[i+1:]...)
				return d, nil
			}
		case *dst.GenDecl:
			if vs, ok := d.Specs[0].(*dst.ValueSpec); ok && vs.Names[0].Name == name {
				f.Decls = append(f.Decls[:i:i], f.Decls[i+1:]...)
				return d, nil
			}
		}
	}
	panic("item not found: " + name)
}

func place(f *dst.File, d dst.Decl, s dst.Stmt) {
	if d != nil {
		f.Decls = append(f.Decls, d)
		return
	}
	slot := findFunc(f, "slot")
	if slot == nil {
		slot = findFunc(f, "host")
	}
	slot.Body.List = append(slot.Body.List, s)
}

var c10SharedWorld *oracle.World

type c10CheckedEnt struct {
	chk *oracle.Checked
	err error
}

var c10Checked = map[string]c10CheckedEnt{}

func c10Check(cs c10Case) (core.Outcome, bool) {
	fail := func(key, f string, a ...interface{}) (core.Outcome, bool) {
		b, _ := json.Marshal(cs)
		return core.Outcome{Key: key, Desc: string(b) + "\n" + fmt.Sprintf(f, a...)}, true
	}
	srcText := c10SourceText(cs)
	tgtText := c10TargetText(cs.Tgt, pkgNameOf(cs.Tgt.Pkg), cs.Clash)
	if cs.Tgt.Pkg == c10SrcPath {
		tgtText = strings.Replace(tgtText, "func keepTgt", "func keepTgt2", 1)
	}
	// the source package must be importable by targets in other packages (ResolveLocalPath)
	if c10SharedWorld == nil {
		// one world per worker: the dependency packages are type-checked once and imported by every case
		c10SharedWorld = c10World(map[string]string{c10SrcPath: "package src\n\nfunc Local() int { return 1 }\n"})
	}
	w := c10SharedWorld
	resolveLocal := cs.Item == "local"
	src, err := c10Load(w, c10SrcPath, srcText, resolveLocal)
	if err != nil {
		return core.Outcome{OK: true}, false
	}
	tgt, err := c10Load(w, cs.Tgt.Pkg, tgtText, false)
	if err != nil {
		return core.Outcome{OK: true}, false
	}
	names := map[string]string{c10SrcPath: "src", c10TgtPath: "tgt", "m/third": "third", "q.r/z": "z"}
	for i, p := range c10Paths {
		names[p] = c10Names[i]
	}
	final, finalPath := tgt.file, cs.Tgt.Pkg
	expectRefs := 0
	perItem := c10BodyRefs * bitsSet(cs.Uses)
	if cs.Item == "var" {
		perItem = c10VarRefs * bitsSet(cs.Uses)
	}
	d, s := takeItem(src.file, cs.Item, "Item")
	if cs.Isolated && d != nil {
		var adecl ast.Decl
		for _, ad := range src.chk.Files[0].Decls {
			switch x := ad.(type) {
			case *ast.FuncDecl:
				if x.Name.Name == "Item" {
					adecl = ad
				}
			case *ast.GenDecl:
				if vs, ok := x.Specs[0].(*ast.ValueSpec); ok && len(vs.Names) > 0 && vs.Names[0].Name == "Item" {
					adecl = ad
				}
			}
		}
		if adecl == nil {
			return fail("engine:isolated", "declaration Item not found in the source ast")
		}
		idec := decorator.NewDecoratorWithImports(src.chk.Fset, c10SrcPath, gotypes.New(src.chk.Info.Uses))
		idec.ResolveLocalPath = cs.Item == "local"
		var node dst.Node
		var ierr error
		if p := guard(func() { node, ierr = idec.DecorateNode(adecl) }); p != "" || ierr != nil {
			return fail("isolated-decoration-fails", "DecorateNode on the declaration alone: panic %q error %v", p, ierr)
		}
		d = node.(dst.Decl)
	}
	if cs.History == "clone" {
		// the copy travels, the original goes back where it was
		orig, origS := d, s
		if d != nil {
			d = dst.Clone(d).(dst.Decl)
		} else {
			s = dst.Clone(s).(dst.Stmt)
		}
		place(src.file, orig, origS)
	}
	if cs.History == "viadep" {
		// the item first rests in a file of the very package it refers to (dependency 0), which is
		// restored with import management there, and only then moves on to the target
		inter, err := c10Load(w, c10Paths[0], "package "+c10Names[0]+"\n\nfunc keepTgt() {\n}\n\nfunc slot() {\n}\n", false)
		if err != nil {
			return core.Outcome{OK: true}, false
		}
		place(inter.file, d, s)
		var sink bytes.Buffer
		var ierr error
		if p := guard(func() {
			ierr = decorator.NewRestorerWithImports(c10Paths[0], simple.New(names)).Fprint(&sink, inter.file)
		}); p != "" || ierr != nil {
			return fail("intermediate-restore-fails", "restoring the item inside the package it refers to: panic %q error %v", p, ierr)
		}
		if d != nil {
			inter.file.Decls = inter.file.Decls[:len(inter.file.Decls)-1]
		} else {
			sl := findFunc(inter.file, "slot")
			sl.Body.List = sl.Body.List[:len(sl.Body.List)-1]
		}
	}
	place(tgt.file, d, s)
	expectRefs = perItem
	switch cs.History {
	case "chain":
		third, err := c10Load(w, cs.Third.Pkg, c10TargetText(*cs.Third, "third", false), false)
		if err != nil {
			return core.Outcome{OK: true}, false
		}
		// take it out of the target again and put it into the third file
		if d != nil {
			tgt.file.Decls = tgt.file.Decls[:len(tgt.file.Decls)-1]
		} else {
			sl := findFunc(tgt.file, "slot")
			sl.Body.List = sl.Body.List[:len(sl.Body.List)-1]
		}
		place(third.file, d, s)
		final, finalPath = third.file, cs.Third.Pkg
	case "swap":
		// in the same edit the target's own code - the only user of the target's imports - moves out
		if findFunc(tgt.file, "keepTgt") == nil {
			return core.Outcome{OK: true}, false // a target without code of its own: nothing to swap out
		}
		takeItem(tgt.file, "func", "keepTgt")
	case "two":
		d2, s2 := takeItem(src.file, "func", "Item2")
		place(tgt.file, d2, s2)
		expectRefs += c10BodyRefs * bitsSet(cs.Uses)
	case "back":
		if d != nil {
			tgt.file.Decls = tgt.file.Decls[:len(tgt.file.Decls)-1]
		} else {
			sl := findFunc(tgt.file, "slot")
			sl.Body.List = sl.Body.List[:len(sl.Body.List)-1]
		}
		place(src.file, d, s)
		final, finalPath = src.file, c10SrcPath
	}
	if cs.Item == "local" && finalPath == c10SrcPath {
		// the local reference is local again; nothing special
	}
	r := decorator.NewRestorerWithImports(finalPath, simple.New(names))
	var buf bytes.Buffer
	printFinal := func() error { return r.Fprint(&buf, final) }
	if cs.History == "reuse" {
		// one FileRestorer for the files of a package (what Package.Save could do): the other file first
		fr := r.FileRestorer()
		other := src.file
		if final == src.file {
			other = tgt.file
		}
		printFinal = func() error {
			var sink bytes.Buffer
			if finalPath == c10SrcPath || cs.Tgt.Pkg == c10SrcPath {
				if e := fr.Fprint(&sink, other); e != nil {
					return e
				}
			}
			return fr.Fprint(&buf, final)
		}
	}
	if p := guard(func() { err = printFinal() }); p != "" {
		return fail("restore-panic:"+short(p, 60), "restoring the target panicked: %s", p)
	}
	if err != nil {
		return fail("restore-error", "restoring the target failed: %v", err)
	}
	out := buf.String()
	files := map[string]string{"f.go": out}
	if finalPath == c10SrcPath && final != src.file {
		// a second file of the source package: the rest of the package is represented by a stub
		files["stub.go"] = "package src\n\nfunc Local() int { return 1 }\n"
	}
	chk, err := w.Check(finalPath, files)
	if err != nil {
		return fail("target-does-not-type-check", "the restored target does not type-check: %v\n%s", err, out)
	}
	// every reference named Fi/Ti/Vi denotes the object of package i
	var bad string
	refs := 0
	ast.Inspect(c10MainFile(chk), func(n ast.Node) bool {
		id, ok := n.(*ast.Ident)
		if !ok || bad != "" {
			return true
		}
		if id.Name == "Local" {
			if obj := chk.Info.Uses[id]; obj != nil && (obj.Pkg() == nil || obj.Pkg().Path() != c10SrcPath) {
				bad = fmt.Sprintf("Local denotes %v", obj)
			}
			return true
		}
		m := c10Ref.FindStringSubmatch(id.Name)
		if m == nil {
			return true
		}
		obj := chk.Info.Uses[id]
		if obj == nil {
			return true
		}
		i, _ := strconv.Atoi(m[1])
		if _, isField := obj.(*types.Var); isField && obj.Pkg() == nil {
			return true
		}
		if obj.Pkg() == nil || obj.Pkg().Path() != c10Paths[i] {
			bad = fmt.Sprintf("%s denotes %v, expected an object of %q", id.Name, obj, c10Paths[i])
		}
		refs++
		return true
	})
	if bad != "" {
		return fail("moved-reference-rebound", "%s\n%s", bad, out)
	}
	keep := c10BodyRefs * bitsSet(usedSet(c10FileOf(cs, finalPath)))
	if cs.History == "back" {
		keep += c10BodyRefs * bitsSet(cs.Uses) // Item2 still lives in the source
	}
	if cs.History == "swap" {
		keep = 0 // the target's own references moved out
	}
	if refs != expectRefs+keep {
		return fail("moved-reference-lost", "expected %d references in the target, found %d\n%s", expectRefs+keep, refs, out)
	}
	return core.Outcome{OK: true}, true
}

func c10FileOf(cs c10Case, finalPath string) c10File {
	switch {
	case cs.History == "chain":
		return *cs.Third
	case cs.History == "back":
		return cs.Src
	}
	return cs.Tgt
}

func bitsSet(x int) int {
	n := 0
	for ; x != 0; x &= x - 1 {
		n++
	}
	return n
}

func c10MainFile(chk *oracle.Checked) *ast.File {
	for _, f := range chk.Files {
		if strings.HasSuffix(chk.Fset.Position(f.Pos()).Filename, "f.go") {
			return f
		}
	}
	return chk.Files[0]
}
