package props

import (
	"encoding/json"
	"fmt"
	"go/ast"
	"go/parser"
	"go/token"
	"go/types"
	"reflect"
	"strconv"
	"strings"

	"github.com/dave/dst"
	"github.com/dave/dst/decorator"
	"github.com/dave/dst/decorator/resolver/goast"
	"github.com/dave/dst/decorator/resolver/gotypes"
	"github.com/dave/dst/decorator/resolver/guess"
	"github.com/dave/dst/decorator/resolver/simple"

	"verif/core"
	"verif/gen"
)

// C11: node maps are exact inverse correspondences between ast and dst.

type c11Case struct {
	Src      string `json:"src"`
	Src2     string `json:"src2,omitempty"` // restored afterwards by the same Restorer
	Resolver bool   `json:"resolver"`
	Template string `json:"template,omitempty"`
	// ImportEdit (with Resolver): the decorated tree is edited so that the import-managed restore has
	// to change the import declarations: rebuild | alias | addref (see c12ImportEdit) | unused (every
	// other declaration removed, so every import is dropped)
	ImportEdit string `json:"import_edit,omitempty"`
	// Typed: decorated with the types-based resolver over a type-checked parse; SkipObj: parsed with
	// parser.SkipObjectResolution (no identifier carries an Obj)
	// ListEdit: between decoration and restoration one element of one list of the tree is deleted ("del:<slot>") or
	// a clone of it appended to its list ("dup:<slot>"); <slot> indexes allSlots of the decorated file. The restorer's
	// maps must describe the edited tree.
	ListEdit string `json:"list_edit,omitempty"`
	Typed    bool   `json:"typed,omitempty"`
	SkipObj  bool   `json:"skip_object_resolution,omitempty"`
}

var c11ImportEdits = []string{"rebuild", "alias", "addref", "unused"}

var astNodeIface = reflect.TypeOf((*ast.Node)(nil)).Elem()

type astEdge struct {
	Field string
	Index int
	Child ast.Node
}

// astChildren lists syntactic children by reflection (comments, objects, Imports/Unresolved excluded).
func astChildren(n ast.Node) []astEdge {
	var out []astEdge
	v := reflect.ValueOf(n).Elem()
	t := v.Type()
	for i := 0; i < t.NumField(); i++ {
		f := t.Field(i)
		if f.Name == "Doc" || f.Name == "Comment" || f.Name == "Comments" {
			continue
		}
		if t.Name() == "File" && (f.Name == "Imports" || f.Name == "Unresolved") {
			continue
		}
		fv := v.Field(i)
		switch {
		case f.Type.Implements(astNodeIface):
			if !fv.IsNil() {
				out = append(out, astEdge{f.Name, -1, fv.Interface().(ast.Node)})
			}
		case f.Type.Kind() == reflect.Slice && f.Type.Elem().Implements(astNodeIface):
			for j := 0; j < fv.Len(); j++ {
				if !fv.Index(j).IsNil() {
					out = append(out, astEdge{f.Name, j, fv.Index(j).Interface().(ast.Node)})
				}
			}
		}
	}
	return out
}

func allAstNodes(root ast.Node) []ast.Node {
	var out []ast.Node
	var rec func(n ast.Node)
	rec = func(n ast.Node) {
		out = append(out, n)
		for _, e := range astChildren(n) {
			rec(e.Child)
		}
	}
	rec(root)
	return out
}

func astTypeName(n ast.Node) string { return reflect.TypeOf(n).Elem().Name() }

// checkMapsQualified, when set, tells checkMaps from type information whether a selector is a
// qualified identifier.
var checkMapsQualified func(*ast.SelectorExpr) bool

func describeAst(n ast.Node) string {
	if id, ok := n.(*ast.Ident); ok {
		return id.Name
	}
	return astTypeName(n)
}

// checkMaps verifies the laws of C11 for one (ast tree, dst tree, maps) triple.
func checkMaps(side string, af *ast.File, df *dst.File, toDst map[ast.Node]dst.Node, toAst map[dst.Node]ast.Node) (key, desc string) {
	for k := range toDst {
		if k == nil || reflect.ValueOf(k).IsNil() {
			return side + ":nil-key-in-Dst.Nodes", "Dst.Nodes has a nil ast.Node key"
		}
	}
	for k := range toAst {
		if k == nil || reflect.ValueOf(k).IsNil() {
			return side + ":nil-key-in-Ast.Nodes", "Ast.Nodes has a nil dst.Node key"
		}
	}
	inDst := map[dst.Node]bool{}
	for _, n := range allNodes(df) {
		inDst[n] = true
	}
	anodes := allAstNodes(af)
	inAst := map[ast.Node]bool{}
	for _, n := range anodes {
		inAst[n] = true
	}
	collapsed := func(a ast.Node, d dst.Node) bool {
		_, isSel := a.(*ast.SelectorExpr)
		id, isId := d.(*dst.Ident)
		return isSel && isId && id.Path != ""
	}
	// only a qualified identifier (selector on a package name) may collapse: decided from type information
	// when the caller has it (checkMapsQualified), else from the syntax (X is an unresolved identifier
	// spelled like one of the file's imports)
	importNames := map[string]bool{}
	var importSpecs []*ast.ImportSpec // from the declarations: a restored ast has no File.Imports
	for _, dcl := range af.Decls {
		if gd, ok := dcl.(*ast.GenDecl); ok && gd.Tok == token.IMPORT {
			for _, s := range gd.Specs {
				importSpecs = append(importSpecs, s.(*ast.ImportSpec))
			}
		}
	}
	for _, is := range importSpecs {
		p, _ := strconv.Unquote(is.Path.Value)
		switch {
		case is.Name != nil:
			importNames[is.Name.Name] = true
		case stdNames[p] != "":
			importNames[stdNames[p]] = true
		default:
			importNames[p[strings.LastIndex(p, "/")+1:]] = true
		}
	}
	qualified := func(sel *ast.SelectorExpr) bool {
		if checkMapsQualified != nil {
			return checkMapsQualified(sel)
		}
		x, ok := sel.X.(*ast.Ident)
		return ok && x.Obj == nil && importNames[x.Name]
	}
	for _, a := range anodes {
		if sel, ok := a.(*ast.SelectorExpr); ok && collapsed(a, toDst[a]) && !qualified(sel) {
			return side + ":non-qualified-selector-collapsed", fmt.Sprintf("selector %s.%s is not a qualified identifier (its X is not a package name) but maps to one path-carrying identifier", describeAst(sel.X), sel.Sel.Name)
		}
	}
	for _, a := range anodes {
		d, ok := toDst[a]
		if !ok {
			return side + ":ast-node-unmapped:" + astTypeName(a), fmt.Sprintf("ast node %s has no entry in Dst.Nodes", astTypeName(a))
		}
		if !inDst[d] {
			return side + ":image-not-in-tree:" + astTypeName(a), fmt.Sprintf("Dst.Nodes[%s] = %s which is not part of the dst tree", astTypeName(a), describeNode(d))
		}
		if astTypeName(a) != typeName(d) && !collapsed(a, d) {
			// X / Sel of a collapsed selector map to the identifier
			if id, isId := d.(*dst.Ident); !(isId && id.Path != "") {
				return side + ":type-mismatch:" + astTypeName(a), fmt.Sprintf("Dst.Nodes[%s] has type %s", astTypeName(a), typeName(d))
			}
		}
		back, ok := toAst[d]
		if !ok {
			return side + ":dst-image-unmapped:" + typeName(d), fmt.Sprintf("Ast.Nodes has no entry for %s (image of %s)", describeNode(d), astTypeName(a))
		}
		if back != a {
			// allowed only for X/Sel of a collapsed selector, whose identifier maps back to the selector
			sel, isSel := back.(*ast.SelectorExpr)
			if !(isSel && (ast.Node(sel.X) == a || ast.Node(sel.Sel) == a) && toDst[sel] == d) {
				return side + ":not-inverse:" + astTypeName(a), fmt.Sprintf("Ast.Nodes[Dst.Nodes[%s]] is a different %s", astTypeName(a), astTypeName(back))
			}
		}
		// structure
		for _, e := range astChildren(a) {
			dc, ok := toDst[e.Child]
			if !ok {
				continue // reported when the child itself is visited
			}
			if id, isId := d.(*dst.Ident); isId && id.Path != "" {
				if dc != d {
					return side + ":collapsed-child", fmt.Sprintf("child %s of a collapsed selector maps to %s, not to the identifier", e.Field, describeNode(dc))
				}
				continue
			}
			fv := reflect.ValueOf(d).Elem().FieldByName(e.Field)
			if !fv.IsValid() {
				return side + ":structure:" + astTypeName(a) + "." + e.Field, fmt.Sprintf("dst %s has no field %s", typeName(d), e.Field)
			}
			var got dst.Node
			if e.Index >= 0 {
				if e.Index < fv.Len() && !fv.Index(e.Index).IsNil() {
					got = fv.Index(e.Index).Interface().(dst.Node)
				}
			} else if !fv.IsNil() {
				got = fv.Interface().(dst.Node)
			}
			if got != dc {
				return side + ":structure:" + astTypeName(a) + "." + e.Field, fmt.Sprintf("ast edge %s.%s[%d] -> %s: the image of the child is not the corresponding child of the image of the parent (%s vs %s)",
					astTypeName(a), e.Field, e.Index, astTypeName(e.Child), describeNode(dc), describeNode(got))
			}
		}
	}
	// File.Imports lists the import specs of the declarations, in order, on both sides (a restored ast has none)
	if len(af.Imports) > 0 || side == "decorator" || side == "decorator-package" {
		if len(af.Imports) != len(df.Imports) {
			return side + ":file-imports-length", fmt.Sprintf("ast File.Imports has %d entries, dst File.Imports %d", len(af.Imports), len(df.Imports))
		}
		for i, is := range af.Imports {
			if toDst[is] != dst.Node(df.Imports[i]) {
				return side + ":file-imports-entry", fmt.Sprintf("File.Imports[%d]: the image of the ast spec is not the dst file's entry", i)
			}
		}
	}
	for _, d := range allNodes(df) {
		a, ok := toAst[d]
		if !ok {
			return side + ":dst-node-unmapped:" + typeName(d), fmt.Sprintf("dst node %s has no entry in Ast.Nodes", describeNode(d))
		}
		if !inAst[a] {
			return side + ":ast-image-not-in-tree:" + typeName(d), fmt.Sprintf("Ast.Nodes[%s] = %s which is not part of the ast", describeNode(d), astTypeName(a))
		}
		if toDst[a] != d {
			return side + ":not-inverse-from-dst:" + typeName(d), fmt.Sprintf("Dst.Nodes[Ast.Nodes[%s]] is a different node", describeNode(d))
		}
	}
	return "", ""
}

func init() {
	core.Register(&core.Prop{
		ID:    "C11",
		Level: "model_checking",
		Rule: "every corpus template (quick: plus every <=1 gap insertion; thorough: <=2), every file of the non-canonical corpus as written (stray semicolons, redundant parentheses, unsorted imports; <=1 insertion, not canonicalised) x {no resolver, goast resolver; import-bearing templates also with the types-based resolver on parses with and without object resolution}: Decorator.Map after DecorateFile and Restorer.Map after RestoreFile " +
			"(with import management when a resolver is used, so identifiers expand to selectors) are checked against ast.Inspect / reflection walks: total, typed, in-tree, mutually inverse (collapsed selectors excepted, and only selectors on package names may collapse), " +
			"commuting with every parent/child edge, no nil keys; plus every ordered pair of import-bearing files restored by one Restorer with import management, both files' maps examined after the second restore; every import-bearing file restored after an edit that forces the restorer to change the import declarations (imports removed so that they are recreated, renamed through Alias, a new reference added, all references removed); and DecorateNode on a 3-file *ast.Package with and without a resolver; state = (canonical text, resolver); non-trivial = file with a collapsed selector or an inserted decoration",
		Assumptions: []string{"syntactic children are the Node-typed fields found by reflection on go/ast and dst types"},
		Units: func(tier string) []string {
			u := gapUnits(gen.Templates(), 1)
			for _, t := range importTemplates() {
				u = append(u, "one-restorer/"+t.Name)
			}
			u = append(u, "package-entry")
			for _, t := range gen.Load("noncanonical.txt") {
				u = append(u, "raw/"+t.Name)
			}
			return u
		},
		Run: func(ctx *core.Ctx, unit int) {
			if n := len(gen.Templates()) + len(importTemplates()) + 1; unit >= n {
				// valid Go that is not gofmt's output (stray semicolons, redundant parentheses ...), as written
				// and with every single insertion, NOT canonicalised
				t := gen.Load("noncanonical.txt")[unit-n]
				forEachInsertion(ctx, t, gen.Sigma, 1, 0, 1, func(cand string, ins []gen.Ins, _ []int) {
					if !gen.Parses(cand) {
						return
					}
					for _, res := range []bool{false, true} {
						cs := c11Case{Src: cand, Resolver: res, Template: t.Name}
						ctx.State(fmt.Sprint(res, cand), true)
						ctx.R.Transitions++
						ctx.Eval(cs, c11Check(cs))
					}
				})
				return
			}
			if unit == len(gen.Templates())+len(importTemplates()) {
				// DecorateNode(*ast.Package), the path ParseDir takes: with and without a resolver
				for _, res := range []bool{false, true} {
					cs := c11Case{Src: "@package", Resolver: res}
					ctx.State(fmt.Sprint("package-entry|", res), true)
					ctx.R.Transitions++
					ctx.Eval(cs, c11Package(cs))
				}
				return
			}
			if n := len(gen.Templates()); unit >= n {
				// a package: this file and then every other import-bearing file restored by ONE Restorer
				// (import management on); the maps must still describe the first file afterwards
				a := importTemplates()[unit-n]
				// restores that have to change the import declarations (the maps must describe the tree
				// the caller passed in, as the restore left it)
				// the types-based resolver, on a parse with and without object resolution
				for _, skip := range []bool{false, true} {
					cs := c11Case{Src: a.Src, Resolver: true, Typed: true, SkipObj: skip}
					ctx.State(fmt.Sprint("typed|", a.Name, "|", skip), true)
					ctx.R.Transitions++
					ctx.Eval(cs, c11Check(cs))
				}
				for _, e := range c11ImportEdits {
					cs := c11Case{Src: a.Src, Resolver: true, ImportEdit: e}
					ctx.State("import-edit|"+a.Name+"|"+e, true)
					ctx.R.Transitions++
					ctx.Eval(cs, c11Check(cs))
				}
				for _, b := range importTemplates() {
					cs := c11Case{Src: a.Src, Src2: b.Src, Resolver: true}
					ctx.State("one-restorer|"+a.Name+"|"+b.Name, true)
					ctx.R.Transitions++
					ctx.Eval(cs, c11Check(cs))
				}
				return
			}
			t := gen.Templates()[unit]
			k := 1
			if ctx.Thorough() {
				k = 2
			}
			// every list of the tree edited once between decoration and restoration: each element deleted, each element
			// duplicated (a clone appended)
			if f0, err := decorator.Parse(t.Src); err == nil {
				for si, sl := range allSlots(f0) {
					if sl.Index < 0 {
						continue
					}
					for _, e := range []string{"del", "dup"} {
						cs := c11Case{Src: t.Src, Template: t.Name, ListEdit: fmt.Sprintf("%s:%d", e, si)}
						ctx.State(fmt.Sprint("list-edit|", t.Name, "|", cs.ListEdit), true)
						ctx.R.Transitions++
						ctx.Eval(cs, c11Check(cs))
					}
				}
			}
			forEachCanonical(ctx, t, gen.Sigma, k, 0, 1, func(gc GapCase) {
				for _, res := range []bool{false, true} {
					cs := c11Case{Src: gc.Src, Resolver: res, Template: t.Name}
					ctx.Eval(cs, c11Check(cs))
				}
				if len(gc.Ins) == 1 {
					ctx.Sample(c11Case{Src: gc.Src, Resolver: true, Template: t.Name})
				}
			})
		},
		Check: func(c core.Case) core.Outcome {
			var cs c11Case
			if err := json.Unmarshal(c, &cs); err != nil {
				panic(err)
			}
			return c11Check(cs)
		},
	})
}

// c11Package decorates three import-bearing files as one *ast.Package and checks the decorator's maps
// file by file.
func c11Package(cs c11Case) core.Outcome {
	fail := func(key, desc string) core.Outcome {
		return core.Outcome{Key: key, Desc: fmt.Sprintf("DecorateNode(*ast.Package), resolver=%v: %s", cs.Resolver, desc)}
	}
	fset := token.NewFileSet()
	files := map[string]*ast.File{}
	for i, name := range []string{"call", "typepos", "composite"} {
		t, _ := gen.Find(importTemplates(), name)
		af, err := parser.ParseFile(fset, fmt.Sprintf("f%d.go", i), t.Src, parser.ParseComments)
		if err != nil {
			panic(err)
		}
		files[fmt.Sprintf("f%d.go", i)] = af
	}
	var dec *decorator.Decorator
	if cs.Resolver {
		dec = decorator.NewDecoratorWithImports(fset, "example.com/local", goast.WithResolver(simple.New(stdNames)))
	} else {
		dec = decorator.NewDecorator(fset)
	}
	var dn dst.Node
	var err error
	if p := guard(func() { dn, err = dec.DecorateNode(&ast.Package{Name: "a", Files: files}) }); p != "" {
		return fail("decorate-panic", p)
	}
	if err != nil {
		// the syntax-based resolver needs the current file, which the package path does not provide
		return core.Outcome{OK: true}
	}
	pkg := dn.(*dst.Package)
	for name, af := range files {
		df := pkg.Files[name]
		if df == nil {
			return fail("package-file-missing", name)
		}
		if k, d := checkMaps("decorator-package", af, df, dec.Dst.Nodes, dec.Ast.Nodes); k != "" {
			return fail(k, name+": "+d)
		}
	}
	return core.Outcome{OK: true}
}

func c11Check(cs c11Case) core.Outcome {
	if cs.Src == "@package" {
		return c11Package(cs)
	}
	fail := func(key, desc string) core.Outcome {
		return core.Outcome{Key: key, Desc: fmt.Sprintf("%s\nresolver=%v import-edit=%q\ninput:\n%s", desc, cs.Resolver, cs.ImportEdit, cs.Src)}
	}
	fset := token.NewFileSet()
	af, err := parser.ParseFile(fset, "a.go", cs.Src, parser.ParseComments)
	if err != nil {
		return core.Outcome{OK: true}
	}
	var dec *decorator.Decorator
	checkMapsQualified = nil
	defer func() { checkMapsQualified = nil }()
	if cs.Typed {
		mode := parser.ParseComments
		if cs.SkipObj {
			mode |= parser.SkipObjectResolution
		}
		chk, cerr := stdWorld.CheckMode("example.com/local", map[string]string{"a.go": cs.Src}, mode)
		if cerr != nil {
			return core.Outcome{OK: true} // not type-correct in the standard world: outside this mode
		}
		fset, af = chk.Fset, chk.Files[0]
		dec = decorator.NewDecoratorWithImports(fset, "example.com/local", gotypes.New(chk.Info.Uses))
		checkMapsQualified = func(sel *ast.SelectorExpr) bool {
			x, ok := sel.X.(*ast.Ident)
			if !ok {
				return false
			}
			_, isPkg := chk.Info.Uses[x].(*types.PkgName)
			return isPkg
		}
	} else if cs.Resolver && (cs.Src2 != "" || cs.ImportEdit != "") {
		dec = decorator.NewDecoratorWithImports(fset, "example.com/local", goast.WithResolver(simple.New(stdNames)))
	} else if cs.Resolver {
		dec = decorator.NewDecoratorWithImports(fset, "example.com/local", goast.New())
	} else {
		dec = decorator.NewDecorator(fset)
	}
	var df *dst.File
	if p := guard(func() { df, err = dec.DecorateFile(af) }); p != "" {
		return fail("decorate-panic", p)
	}
	if err != nil {
		return core.Outcome{OK: true} // e.g. dot-import with goast: outside this property
	}
	if k, d := checkMaps("decorator", af, df, dec.Dst.Nodes, dec.Ast.Nodes); k != "" {
		return fail(k, "Decorator.Map: "+d)
	}
	checkMapsQualified = nil // the restored ast is judged by its syntax
	if cs.ListEdit != "" {
		var si int
		kind := cs.ListEdit[:3]
		fmt.Sscanf(cs.ListEdit[4:], "%d", &si)
		sl := allSlots(df)[si]
		lv := reflect.ValueOf(sl.Parent).Elem().FieldByName(sl.Field)
		if kind == "del" {
			lv.Set(reflect.AppendSlice(lv.Slice(0, sl.Index).Slice3(0, sl.Index, sl.Index), lv.Slice(sl.Index+1, lv.Len())))
		} else {
			lv.Set(reflect.Append(lv, reflect.ValueOf(dst.Clone(sl.Get()))))
		}
	}
	var alias map[string]string
	switch cs.ImportEdit {
	case "":
	case "unused":
		var keep []dst.Decl
		for _, dcl := range df.Decls {
			if gd, ok := dcl.(*dst.GenDecl); ok && gd.Tok == token.IMPORT {
				keep = append(keep, dcl)
			}
		}
		df.Decls = keep
	default:
		alias = c12ImportEdit(df, cs.ImportEdit)
	}
	var res *decorator.Restorer
	if cs.Typed || cs.Resolver && (cs.Src2 != "" || cs.ImportEdit != "") {
		res = decorator.NewRestorerWithImports("example.com/local", simple.New(stdNames))
	} else if cs.Resolver {
		res = decorator.NewRestorerWithImports("example.com/local", guess.New())
	} else {
		res = decorator.NewRestorer()
	}
	var rf *ast.File
	if p := guard(func() {
		if alias != nil {
			fr := res.FileRestorer()
			fr.Alias = alias
			rf, err = fr.RestoreFile(df)
		} else {
			rf, err = res.RestoreFile(df)
		}
	}); p != "" {
		return fail("restore-panic", p)
	}
	if err != nil {
		return fail("restore-error", err.Error())
	}
	if k, d := checkMaps("restorer", rf, df, res.Dst.Nodes, res.Ast.Nodes); k != "" {
		return fail(k, "Restorer.Map: "+d)
	}
	if cs.Src2 != "" {
		af2, err := parser.ParseFile(fset, "b.go", cs.Src2, parser.ParseComments)
		if err != nil {
			return core.Outcome{OK: true}
		}
		df2, err := dec.DecorateFile(af2)
		if err != nil {
			return core.Outcome{OK: true}
		}
		var rf2 *ast.File
		if p := guard(func() { rf2, err = res.RestoreFile(df2) }); p != "" {
			return fail("restore-panic", "second file: "+p)
		}
		if err != nil {
			return fail("restore-error", "second file: "+err.Error())
		}
		if k, d := checkMaps("restorer-after-second-file", rf, df, res.Dst.Nodes, res.Ast.Nodes); k != "" {
			return fail(k, "Restorer.Map of the first file after the same Restorer restored a second file: "+d)
		}
		if k, d := checkMaps("restorer-second-file", rf2, df2, res.Dst.Nodes, res.Ast.Nodes); k != "" {
			return fail(k, "Restorer.Map of the second file: "+d)
		}
	}
	return core.Outcome{OK: true}
}
