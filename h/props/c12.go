package props

import (
	"bytes"
	"encoding/json"
	"fmt"
	"go/ast"
	"go/parser"
	"go/printer"
	"go/token"
	"os"
	"reflect"
	"sort"
	"strings"

	"github.com/dave/dst"
	"github.com/dave/dst/decorator"
	"github.com/dave/dst/decorator/resolver/goast"
	"github.com/dave/dst/decorator/resolver/simple"

	"verif/core"
	"verif/gen"
)

// C12: restored ASTs carry a coherent position space.

type c12Case struct {
	Srcs   []string `json:"srcs"` // files restored in sequence into one FileSet by one Restorer
	Edit   string   `json:"edit"` // "none" | "fill-block" | "fill-line" | "fill-newline" | "reverse" | "drop-first" | "dup-last"
	Extras bool     `json:"extras"`
	Shared bool     `json:"shared"` // FileSet already holds another file
	Reuse  bool     `json:"reuse"`  // one FileRestorer restores all files of the sequence
	// Imports: "" (no import management) | keep | rebuild (import declarations removed before the
	// restore, which has to create them) | alias (every path renamed through FileRestorer.Alias) |
	// addref (a reference to a package the file does not import yet is appended)
	Imports string `json:"imports,omitempty"`
}

var c12ImportModes = []string{"keep", "rebuild", "alias", "addref"}

const c12Local = "example.com/local"

// c12ImportEdit prepares an import-decorated file for the given mode and returns the alias map.
func c12ImportEdit(f *dst.File, mode string) map[string]string {
	switch mode {
	case "rebuild":
		var keep []dst.Decl
		for _, dcl := range f.Decls {
			if gd, ok := dcl.(*dst.GenDecl); ok && gd.Tok == token.IMPORT {
				cgo := false
				for _, s := range gd.Specs {
					if s.(*dst.ImportSpec).Path.Value == `"C"` {
						cgo = true
					}
				}
				if !cgo {
					continue
				}
			}
			keep = append(keep, dcl)
		}
		f.Decls = keep
		var imps []*dst.ImportSpec
		for _, s := range f.Imports {
			if s.Path.Value == `"C"` {
				imps = append(imps, s)
			}
		}
		f.Imports = imps
	case "alias":
		al := map[string]string{}
		i := 0
		dst.Inspect(f, func(n dst.Node) bool {
			if id, ok := n.(*dst.Ident); ok && id.Path != "" && al[id.Path] == "" {
				i++
				al[id.Path] = fmt.Sprintf("zz%d", i)
			}
			return true
		})
		return al
	case "addref":
		f.Decls = append(f.Decls, &dst.GenDecl{Tok: token.VAR, Specs: []dst.Spec{&dst.ValueSpec{
			Names:  []*dst.Ident{dst.NewIdent("_")},
			Values: []dst.Expr{&dst.CallExpr{Fun: &dst.Ident{Name: "F", Path: "k.io/myvendor/api"}, Args: []dst.Expr{&dst.BasicLit{Kind: token.STRING, Value: `"s"`}}}},
		}}})
	}
	return nil
}

var c12Edits = []string{"none", "fill-block", "fill-line", "fill-newline", "reverse", "drop-first", "dup-last"}

var posType = reflect.TypeOf(token.NoPos)

func init() {
	core.Register(&core.Prop{
		ID:    "C12",
		Level: "model_checking",
		Rule: "trees obtained by parsing every canonical corpus variant (<=1 gap insertion; thorough <=2) and every file of the non-canonical corpus as written (<=1 insertion), by filling every decoration point (block comments / line comments / newlines) and by editing every list (reverse, drop first, duplicate last via Clone), " +
			"restored with Extras off and on, alone, into a populated FileSet, and as every ordered sequence of <=3 (quick: pairs + selected triples) corpus files restored by one Restorer (fresh FileRestorer per file, and one FileRestorer reused for all) into one FileSet, all files re-examined after the last restore; " +
			"plus import-managed restores of every import-bearing template (<=1 insertion; thorough <=2; every ordered template pair through one Restorer / one FileRestorer) in four modes: imports kept, import declarations removed so that the restorer creates them, every path renamed through FileRestorer.Alias, a reference to a not yet imported package appended; " +
			"oracle by reflection: every assigned Pos inside the one registered file, files disjoint, line table strictly increasing, comments sorted, order of all positions consistent with a fresh parse of the printed text, format.Node repeatable; " +
			"state = (sources, edit, extras, shared); non-trivial = tree with comments or edits",
		Assumptions: []string{"a fresh go/parser parse of the printed text is the reference for relative order"},
		Units: func(tier string) []string {
			u := gapUnits(gen.Templates(), 1)
			for _, t := range gen.Templates() {
				u = append(u, "seq/"+t.Name)
			}
			for _, t := range importTemplates() {
				u = append(u, "imports/"+t.Name)
			}
			for _, t := range gen.Load("noncanonical.txt") {
				u = append(u, "raw/"+t.Name)
			}
			return u
		},
		Run: runC12,
		Check: func(c core.Case) core.Outcome {
			var cs c12Case
			if err := json.Unmarshal(c, &cs); err != nil {
				panic(err)
			}
			return c12Check(cs)
		},
	})
}

func runC12(ctx *core.Ctx, unit int) {
	defer func() {
		for k, v := range c12Stats {
			ctx.Count(k, v)
			delete(c12Stats, k)
		}
	}()
	ts := gen.Templates()
	if n := 2*len(ts) + len(importTemplates()); unit >= n {
		// valid files that are not gofmt's output, as written (not canonicalised), with every single insertion
		t := gen.Load("noncanonical.txt")[unit-n]
		forEachInsertion(ctx, t, gen.Sigma, 1, 0, 1, func(cand string, ins []gen.Ins, _ []int) {
			if !gen.Parses(cand) {
				return
			}
			for _, extras := range []bool{false, true} {
				cs := c12Case{Srcs: []string{cand}, Edit: "none", Extras: extras}
				ctx.State(fmt.Sprint("raw|", extras, cand), true)
				ctx.Eval(cs, c12Check(cs))
				ctx.R.Transitions++
			}
		})
		return
	}
	if unit >= 2*len(ts) {
		// import-managed restore: identifiers expand to selectors, import declarations are updated or created
		its := importTemplates()
		t := its[unit-2*len(ts)]
		k := 1
		if ctx.Thorough() {
			k = 2
		}
		forEachCanonical(ctx, t, gen.Sigma, k, 0, 1, func(gc GapCase) {
			for _, mode := range c12ImportModes {
				for _, extras := range []bool{false, true} {
					cs := c12Case{Srcs: []string{gc.Src}, Edit: "none", Extras: extras, Imports: mode}
					ctx.Eval(cs, c12Check(cs))
					ctx.R.Transitions++
				}
			}
		})
		for _, b := range its {
			for _, mode := range c12ImportModes {
				for _, reuse := range []bool{false, true} {
					cs := c12Case{Srcs: []string{t.Src, b.Src}, Edit: "none", Reuse: reuse, Imports: mode}
					ctx.State(fmt.Sprintf("impseq|%s|%s|%s|%v", t.Name, b.Name, mode, reuse), true)
					ctx.Eval(cs, c12Check(cs))
					ctx.R.Transitions++
				}
			}
		}
		return
	}
	if unit >= len(ts) {
		// sequences: this template first, then every other template, then (third) a fixed pool
		a := ts[unit-len(ts)]
		pool := []string{"comments", "multistr", "ranges"}
		for _, b := range ts {
			for _, extras := range []bool{false, true} {
				for _, reuse := range []bool{false, true} {
					cs := c12Case{Srcs: []string{a.Src, b.Src}, Edit: "none", Extras: extras, Reuse: reuse}
					ctx.State(fmt.Sprintf("seq|%s|%s|%v|%v", a.Name, b.Name, extras, reuse), true)
					ctx.Eval(cs, c12Check(cs))
					ctx.R.Transitions++
				}
			}
			third := pool
			if ctx.Thorough() {
				third = nil
				for _, t := range ts {
					third = append(third, t.Name)
				}
			}
			for _, cn := range third {
				c, _ := gen.Find(ts, cn)
				cs := c12Case{Srcs: []string{a.Src, b.Src, c.Src}, Edit: "none", Extras: true, Reuse: len(cn)%2 == 0}
				ctx.State(fmt.Sprintf("seq|%s|%s|%s", a.Name, b.Name, cn), true)
				ctx.Eval(cs, c12Check(cs))
				ctx.R.Transitions++
			}
			if ctx.Expired() {
				ctx.Cut("sequences")
				return
			}
		}
		return
	}
	t := ts[unit]
	k := 1
	if ctx.Thorough() {
		k = 2
	}
	if f0, err := decorator.Parse(t.Src); err == nil {
		for ni, nd := range allNodes(f0) {
			for pi := range decPoints(nd) {
				for _, kind := range []string{"nl", "line", "block"} {
					cs := c12Case{Srcs: []string{t.Src}, Edit: fmt.Sprintf("one:%s:%d:%d", kind, ni, pi)}
					ctx.State(t.Name+"|"+cs.Edit, true)
					ctx.Eval(cs, c12Check(cs))
					ctx.R.Transitions++
				}
			}
		}
	}
	forEachCanonical(ctx, t, gen.Sigma, k, 0, 1, func(gc GapCase) {
		for _, edit := range c12Edits {
			if len(gc.Ins) > 0 && edit != "none" && !ctx.Thorough() {
				continue // edits/fills on the plain templates only in the quick tier
			}
			for _, extras := range []bool{false, true} {
				for _, shared := range []bool{false, true} {
					if shared && (extras || edit != "none") {
						continue
					}
					cs := c12Case{Srcs: []string{gc.Src}, Edit: edit, Extras: extras, Shared: shared}
					ctx.Eval(cs, c12Check(cs))
					ctx.R.Transitions++
					if edit == "reverse" && extras {
						ctx.Sample(map[string]interface{}{"template": t.Name, "edit": edit, "extras": extras})
					}
				}
			}
		}
	})
}

// ownLineSlot: elements that occupy their own lines.
func ownLineSlot(s slot) bool {
	switch typeName(s.Parent) + "." + s.Field {
	case "BlockStmt.List", "File.Decls", "CaseClause.Body", "CommClause.Body":
		return true
	case "GenDecl.Specs":
		return s.Parent.(*dst.GenDecl).Lparen
	}
	return false
}

func c12ApplyEdit(f *dst.File, edit string) {
	if strings.HasPrefix(edit, "one:") {
		// one:<kind>:<node index>:<point index>: a single decoration at one point of one node
		var kind string
		var ni, pi int
		parts := strings.Split(edit, ":")
		kind = parts[1]
		fmt.Sscan(parts[2], &ni)
		fmt.Sscan(parts[3], &pi)
		p := decPoints(allNodes(f)[ni])[pi]
		switch kind {
		case "nl":
			p.List.Append("\n")
		case "line":
			p.List.Append("// one")
		case "block":
			p.List.Append("/*one*/")
		}
		return
	}
	switch edit {
	case "fill-block":
		fillDecorations(f, "d")
	case "fill-line", "fill-newline":
		// only at the Start/End of own-line list elements: elsewhere a line break would make the Go
		// scanner insert a semicolon, and go/printer (rightly) defers such comments
		n := 0
		for _, s := range allSlots(f) {
			if !ownLineSlot(s) {
				continue
			}
			nd := s.Get().Decorations()
			for _, l := range []*dst.Decorations{&nd.Start, &nd.End} {
				n++
				if edit == "fill-line" {
					l.Append(fmt.Sprintf("// l%d", n))
				} else {
					l.Append("\n")
				}
			}
		}
	case "reverse", "drop-first", "dup-last":
		for _, nd := range allNodes(f) {
			v := reflect.ValueOf(nd).Elem()
			for i := 0; i < v.NumField(); i++ {
				fv := v.Field(i)
				ft := v.Type().Field(i)
				if fv.Kind() != reflect.Slice || !ft.Type.Elem().Implements(nodeIface) || fv.Len() < 2 {
					continue
				}
				if v.Type().Name() == "File" && ft.Name != "Decls" {
					continue
				}
				switch edit {
				case "reverse":
					for a, b := 0, fv.Len()-1; a < b; a, b = a+1, b-1 {
						x, y := fv.Index(a).Interface(), fv.Index(b).Interface()
						fv.Index(a).Set(reflect.ValueOf(y))
						fv.Index(b).Set(reflect.ValueOf(x))
					}
				case "drop-first":
					fv.Set(fv.Slice(1, fv.Len()))
				case "dup-last":
					last := fv.Index(fv.Len() - 1).Interface().(dst.Node)
					fv.Set(reflect.Append(fv, reflect.ValueOf(dst.Clone(last))))
				}
			}
		}
	}
}

type posPair struct {
	r, f token.Pos
	path string
}

type posRec struct {
	path string
	pos  token.Pos
}

// collectPositions walks everything reachable from v (including Object links when followObj).
func collectPositions(v reflect.Value, path string, followObj bool, seen map[uintptr]bool, out *[]posRec) {
	switch v.Kind() {
	case reflect.Ptr:
		if v.IsNil() {
			return
		}
		if _, isObj := v.Interface().(*ast.Object); isObj && !followObj {
			return
		}
		if _, isScope := v.Interface().(*ast.Scope); isScope && !followObj {
			return
		}
		if seen[v.Pointer()] {
			return
		}
		seen[v.Pointer()] = true
		collectPositions(v.Elem(), path, followObj, seen, out)
	case reflect.Interface:
		if !v.IsNil() {
			collectPositions(v.Elem(), path, followObj, seen, out)
		}
	case reflect.Struct:
		for i := 0; i < v.NumField(); i++ {
			collectPositions(v.Field(i), path+"."+v.Type().Field(i).Name, followObj, seen, out)
		}
	case reflect.Slice:
		for i := 0; i < v.Len(); i++ {
			collectPositions(v.Index(i), fmt.Sprintf("%s[%d]", path, i), followObj, seen, out)
		}
	case reflect.Map:
		keys := v.MapKeys()
		sort.Slice(keys, func(i, j int) bool { return fmt.Sprint(keys[i]) < fmt.Sprint(keys[j]) })
		for _, k := range keys {
			collectPositions(v.MapIndex(k), fmt.Sprintf("%s{%v}", path, k), followObj, seen, out)
		}
	default:
		if v.Type() == posType {
			*out = append(*out, posRec{path, token.Pos(v.Int())})
		}
	}
}

// lockstep collects (restored, fresh) pairs of position fields of two structurally equal asts;
// ok=false if the shapes differ.
func lockstep(a, b reflect.Value, path string, pairs *[]posPair) bool {
	if a.Type() != b.Type() {
		return false
	}
	switch a.Kind() {
	case reflect.Ptr, reflect.Interface:
		if a.Kind() == reflect.Ptr {
			// resolution results and comment groups are not part of the shape (Obj is nil without Extras)
			switch a.Interface().(type) {
			case *ast.Object, *ast.Scope, *ast.CommentGroup:
				return true
			}
		}
		if a.IsNil() || b.IsNil() {
			if a.IsNil() != b.IsNil() && os.Getenv("VERIF_C12_DEBUG") != "" {
				fmt.Fprintf(os.Stderr, "lockstep: nil mismatch at %s (%v / %v)\n", path, a.IsNil(), b.IsNil())
			}
			return a.IsNil() == b.IsNil()
		}
		return lockstep(a.Elem(), b.Elem(), path, pairs)
	case reflect.Struct:
		for i := 0; i < a.NumField(); i++ {
			name := a.Type().Field(i).Name
			if name == "Doc" || name == "Comment" || name == "Comments" || name == "Imports" || name == "Unresolved" || name == "Scope" || name == "FileStart" || name == "FileEnd" || name == "GoVersion" {
				continue
			}
			if !lockstep(a.Field(i), b.Field(i), path+"."+name, pairs) {
				return false
			}
		}
		return true
	case reflect.Slice:
		if a.Len() != b.Len() {
			if os.Getenv("VERIF_C12_DEBUG") != "" {
				fmt.Fprintf(os.Stderr, "lockstep: length mismatch at %s (%d / %d)\n", path, a.Len(), b.Len())
			}
			return false
		}
		for i := 0; i < a.Len(); i++ {
			if !lockstep(a.Index(i), b.Index(i), fmt.Sprintf("%s[%d]", path, i), pairs) {
				return false
			}
		}
		return true
	default:
		if a.Type() == posType {
			pa, pb := token.Pos(a.Int()), token.Pos(b.Int())
			if pa.IsValid() && pb.IsValid() {
				*pairs = append(*pairs, posPair{pa, pb, path})
			} else if pa.IsValid() != pb.IsValid() {
				c12Validity = append(c12Validity, fmt.Sprintf("%s (restored valid=%v, fresh parse valid=%v)", path, pa.IsValid(), pb.IsValid()))
			}
			return true
		}
		if a.Kind() == reflect.String || a.Kind() == reflect.Int || a.Kind() == reflect.Bool {
			return a.Interface() == b.Interface()
		}
		return true
	}
}

// c12Containment returns a description of the first child node whose [Pos, End] range is not inside
// its parent's, "" if there is none. Comments and nodes without a valid position are skipped.
func c12Containment(f *ast.File) string {
	var stack []ast.Node
	bad := ""
	ast.Inspect(f, func(n ast.Node) bool {
		if n == nil {
			stack = stack[:len(stack)-1]
			return true
		}
		switch n.(type) {
		case *ast.Comment, *ast.CommentGroup:
			stack = append(stack, n)
			return true
		}
		if len(stack) > 0 && bad == "" {
			p := stack[len(stack)-1]
			if _, isFile := p.(*ast.File); !isFile && p.Pos().IsValid() && p.End().IsValid() && n.Pos().IsValid() && n.End().IsValid() {
				if n.Pos() < p.Pos() || n.End() > p.End() {
					bad = fmt.Sprintf("%s.%s %s [%d,%d] lies outside its parent %s [%d,%d]", astTypeName(p), astTypeName(n), "child", n.Pos(), n.End(), astTypeName(p), p.Pos(), p.End())
				}
			}
		}
		stack = append(stack, n)
		return true
	})
	return bad
}

// c12Validity collects, during one lockstep walk, position fields that are set on one side only.
var c12Validity []string

// c12Stats counts, per worker, how far the comparison with a fresh parse got (flushed by runC12).
var c12Stats = map[string]int64{}

func c12Check(cs c12Case) core.Outcome {
	stat := func(what string) {
		m := cs.Imports
		if m == "" {
			m = "off"
		}
		c12Stats["import management "+m+": "+what]++
	}
	fail := func(key, f string, a ...interface{}) core.Outcome {
		src := cs.Srcs[len(cs.Srcs)-1]
		return core.Outcome{Key: key, Desc: fmt.Sprintf("edit=%s extras=%v shared=%v reuse-filerestorer=%v files=%d imports=%q\n", cs.Edit, cs.Extras, cs.Shared, cs.Reuse, len(cs.Srcs), cs.Imports) + fmt.Sprintf(f, a...) + "\nlast input:\n" + src}
	}
	// comment-versus-token order is compared only for unedited parsed trees: there the printed text is
	// the canonical input itself; in edited or hand-decorated trees go/printer may legitimately emit a
	// comment later than its position (after a token it writes without consulting positions, or after
	// the list when a multi-line comment would break an index list)
	handDecorated := cs.Edit != "none" || cs.Imports != "" && cs.Imports != "keep"
	res := decorator.NewRestorer()
	if cs.Imports != "" {
		res = decorator.NewRestorerWithImports(c12Local, simple.New(stdNames))
	}
	res.Extras = cs.Extras
	if cs.Shared {
		if _, err := parser.ParseFile(res.Fset, "pre.go", "package pre\n\nvar x = 1\n", 0); err != nil {
			panic(err)
		}
	}
	type restored struct {
		f    *ast.File
		base int
		tf   *token.File
	}
	var files []restored
	var fileRestorer *decorator.FileRestorer
	for i, src := range cs.Srcs {
		var df *dst.File
		var err error
		var alias map[string]string
		if cs.Imports != "" {
			dec := decorator.NewDecoratorWithImports(token.NewFileSet(), c12Local, goast.WithResolver(simple.New(stdNames)))
			if p := guard(func() { df, err = dec.Parse(src) }); p != "" || err != nil {
				return core.Outcome{OK: true} // decoration failures are C09/C15 matters
			}
			alias = c12ImportEdit(df, cs.Imports)
		} else {
			df, err = decorator.Parse(src)
			if err != nil {
				return core.Outcome{OK: true}
			}
		}
		c12ApplyEdit(df, cs.Edit)
		base := res.Fset.Base()
		var af *ast.File
		if cs.Reuse && fileRestorer == nil {
			fileRestorer = res.FileRestorer()
		}
		if p := guard(func() {
			if cs.Reuse {
				fileRestorer.Name = fmt.Sprintf("f%d.go", i)
				if alias != nil {
					fileRestorer.Alias = alias
				}
				af, err = fileRestorer.RestoreFile(df)
			} else if alias != nil {
				fr := res.FileRestorer()
				fr.Alias = alias
				af, err = fr.RestoreFile(df)
			} else {
				af, err = res.RestoreFile(df)
			}
		}); p != "" {
			return fail("restore-panic:"+short(p, 60), "RestoreFile panicked on file %d: %s", i, p)
		}
		if err != nil {
			return fail("restore-error", "%v", err)
		}
		var tf *token.File
		n := 0
		res.Fset.Iterate(func(f *token.File) bool {
			if f.Base() == base {
				tf = f
			}
			n++
			return true
		})
		if tf == nil {
			return fail("no-file-registered", "RestoreFile registered no file at base %d", base)
		}
		files = append(files, restored{af, base, tf})
	}
	// files disjoint
	var all []*token.File
	res.Fset.Iterate(func(f *token.File) bool { all = append(all, f); return true })
	want := len(cs.Srcs)
	if cs.Shared {
		want++
	}
	if len(all) != want {
		return fail("file-count", "FileSet holds %d files, expected %d (one per restored file)", len(all), want)
	}
	for i := 1; i < len(all); i++ {
		if all[i].Base() <= all[i-1].Base()+all[i-1].Size() {
			return fail("files-overlap", "files %d and %d overlap: [%d,%d] and base %d", i-1, i, all[i-1].Base(), all[i-1].Base()+all[i-1].Size(), all[i].Base())
		}
	}
	for fi, r := range files {
		lo, hi := token.Pos(r.tf.Base()), token.Pos(r.tf.Base()+r.tf.Size())
		var ps []posRec
		collectPositions(reflect.ValueOf(r.f), "File", cs.Extras, map[uintptr]bool{}, &ps)
		for _, p := range ps {
			if !p.pos.IsValid() {
				continue
			}
			if p.pos < lo || p.pos > hi {
				return fail("pos-outside-file:"+c12PathKey(p.path), "file %d: position %s = %d lies outside the registered file [%d,%d]", fi, p.path, p.pos, lo, hi)
			}
			if res.Fset.File(p.pos) != r.tf {
				return fail("pos-in-other-file:"+c12PathKey(p.path), "file %d: position %s = %d resolves to another file", fi, p.path, p.pos)
			}
		}
		lines := r.tf.Lines()
		for i := 1; i < len(lines); i++ {
			if lines[i] <= lines[i-1] {
				return fail("lines-not-increasing", "file %d: line table not strictly increasing at %d: %v", fi, i, lines)
			}
		}
		if len(lines) > 0 && lines[len(lines)-1] > r.tf.Size() {
			return fail("line-beyond-file", "file %d: last line offset %d beyond file size %d", fi, lines[len(lines)-1], r.tf.Size())
		}
		for i := 1; i < len(r.f.Comments); i++ {
			if r.f.Comments[i].Pos() <= r.f.Comments[i-1].Pos() {
				return fail("comments-not-sorted", "file %d: comment group %d at %d not after group %d at %d", fi, i, r.f.Comments[i].Pos(), i-1, r.f.Comments[i-1].Pos())
			}
			for j := 1; j < len(r.f.Comments[i].List); j++ {
				if r.f.Comments[i].List[j].Slash <= r.f.Comments[i].List[j-1].Slash {
					return fail("comments-not-sorted", "file %d: comments inside group %d out of order", fi, i)
				}
			}
		}
		// repeatable printing
		var b1, b2 bytes.Buffer
		var e1, e2 error
		// go/printer with gofmt's settings, but without format.Node's import sorting (which re-parses the
		// text and moves comments inside parenthesised import groups to the end of their spec)
		cfg := printer.Config{Mode: printer.UseSpaces | printer.TabIndent, Tabwidth: 8}
		if p := guard(func() { e1 = cfg.Fprint(&b1, res.Fset, r.f); e2 = cfg.Fprint(&b2, res.Fset, r.f) }); p != "" {
			return fail("print-panic", "format.Node panicked: %s", p)
		}
		if (e1 == nil) != (e2 == nil) || b1.String() != b2.String() {
			return fail("print-not-repeatable", "printing the restored ast twice gives different results")
		}
		if e1 != nil {
			stat("printing failed (no order comparison)")
			continue
		}
		// order of positions vs a fresh parse of the printed text
		ffset := token.NewFileSet()
		fresh, err := parser.ParseFile(ffset, "", b1.Bytes(), parser.ParseComments)
		if err != nil {
			stat("printed text does not parse (no order comparison)")
			continue // arbitrary decorations may print text that does not parse; nothing to compare with
		}
		var pairs []posPair
		c12Validity = nil
		if !lockstep(reflect.ValueOf(r.f), reflect.ValueOf(fresh), "File", &pairs) {
			stat("restored ast and fresh parse differ in structure (no order comparison)")
			continue
		}
		stat("files whose position order was compared with a fresh parse")
		// a node's children lie inside the node (Pos/End as go/ast computes them from the restored position
		// fields): what position reporting and tools like astutil.PathEnclosingInterval rely on
		if bad := c12Containment(r.f); bad != "" {
			return fail("child-outside-parent:"+strings.SplitN(bad, " ", 2)[0], "file %d: %s\nprinted:\n%s", fi, bad, b1.String())
		}
		var rc, fc []*ast.Comment
		for _, g := range r.f.Comments {
			rc = append(rc, g.List...)
		}
		for _, g := range fresh.Comments {
			fc = append(fc, g.List...)
		}
		if len(rc) == len(fc) {
			sort.Slice(rc, func(i, j int) bool { return rc[i].Slash < rc[j].Slash })
			for i := range rc {
				if stripWS(rc[i].Text) != stripWS(fc[i].Text) {
					return fail("comment-order", "file %d: %d-th comment by restored position is %q, by fresh parse %q", fi, i, rc[i].Text, fc[i].Text)
				}
				// comment-vs-token order only for decorations the decorator itself placed: a hand-placed
				// comment may sit before a token that go/printer emits without consulting its position
				// (e.g. the '=' of an alias declaration) and is then printed after it
				if !handDecorated {
					pairs = append(pairs, posPair{rc[i].Slash, fc[i].Slash, "comment " + rc[i].Text})
				}
			}
		}
		sort.SliceStable(pairs, func(i, j int) bool { return pairs[i].r < pairs[j].r })
		for i := 1; i < len(pairs); i++ {
			if pairs[i].f < pairs[i-1].f && pairs[i].r > pairs[i-1].r {
				return fail("order-differs-from-fresh-parse", "file %d: restored positions %s=%d < %s=%d but a fresh parse of the printed text orders them %d > %d\nprinted:\n%s", fi, pairs[i-1].path, pairs[i-1].r, pairs[i].path, pairs[i].r, pairs[i-1].f, pairs[i].f, b1.String())
			}
		}
		// ties: two position fields coincide in the restored ast exactly when they coincide in the fresh parse
		sort.SliceStable(pairs, func(i, j int) bool {
			if pairs[i].r != pairs[j].r {
				return pairs[i].r < pairs[j].r
			}
			return pairs[i].f < pairs[j].f
		})
		for i := 1; i < len(pairs); i++ {
			if (pairs[i].r == pairs[i-1].r) != (pairs[i].f == pairs[i-1].f) && !handDecorated {
				return fail("positions-coincide-differently:"+fieldKey(pairs[i-1].path)+"/"+fieldKey(pairs[i].path), "file %d: %s and %s: restored positions %d and %d, fresh parse %d and %d (two positions must coincide in the restored ast exactly when they coincide in a fresh parse)\nprinted:\n%s",
					fi, pairs[i-1].path, pairs[i].path, pairs[i-1].r, pairs[i].r, pairs[i-1].f, pairs[i].f, b1.String())
			}
		}
		sort.SliceStable(pairs, func(i, j int) bool { return pairs[i].f < pairs[j].f })
		for i := 1; i < len(pairs); i++ {
			if pairs[i].r < pairs[i-1].r && pairs[i].f > pairs[i-1].f {
				return fail("order-differs-from-fresh-parse", "file %d: fresh positions %s=%d < %s=%d but restored positions are %d > %d\nprinted:\n%s", fi, pairs[i-1].path, pairs[i-1].f, pairs[i].path, pairs[i].f, pairs[i-1].r, pairs[i].r, b1.String())
			}
		}
	}
	return core.Outcome{OK: true}
}

// c12PathKey groups positions reached through an Object link (Extras) under one key: which of those
// nodes is restored first is a map order inside the restorer.
func c12PathKey(path string) string {
	if strings.Contains(path, ".Obj.") || strings.Contains(path, ".Scope.") {
		return "via-object-link"
	}
	return fieldKey(path)
}
