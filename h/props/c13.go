package props

import (
	"encoding/json"
	"fmt"
	"go/ast"
	"go/parser"
	"go/token"
	"reflect"
	"sort"
	"strings"

	"github.com/dave/dst"
	"github.com/dave/dst/decorator"

	"verif/core"
	"verif/gen"
)

// C13: Walk and Inspect visit every node exactly once, in source order.

type c13Case struct {
	Template string `json:"template"`
	// Mode: "abort" (the callback panics at call Index) | "full" | "prune-node" | "prune-pair" | "prune-type" | "remove" | "remove-all" | "root" | "visitor" | "package"
	Mode string `json:"mode"`
	// Index: node index (pre-order of the reference traversal) for prune-node / remove
	Index  int    `json:"index"`
	Index2 int    `json:"index2,omitempty"` // second pruned node (prune-pair)
	Field  string `json:"field,omitempty"`
	Type   string `json:"type,omitempty"`
}

var nodeIface = reflect.TypeOf((*dst.Node)(nil)).Elem()

// syntactic child fields, by reflection: every field (or slice element) whose static type
// implements dst.Node, in declaration order; File.Imports / File.Unresolved are references, not
// children; Package.Files is a map.
func dstChildren(n dst.Node) []dst.Node {
	var out []dst.Node
	if p, ok := n.(*dst.Package); ok {
		var names []string
		for k := range p.Files {
			names = append(names, k)
		}
		sort.Strings(names)
		for _, k := range names {
			out = append(out, p.Files[k])
		}
		return out
	}
	v := reflect.ValueOf(n).Elem()
	t := v.Type()
	for i := 0; i < t.NumField(); i++ {
		f := t.Field(i)
		if t.Name() == "File" && (f.Name == "Imports" || f.Name == "Unresolved") {
			continue
		}
		fv := v.Field(i)
		switch {
		case f.Type.Implements(nodeIface):
			if !fv.IsNil() {
				out = append(out, fv.Interface().(dst.Node))
			}
		case f.Type.Kind() == reflect.Slice && f.Type.Elem().Implements(nodeIface):
			for j := 0; j < fv.Len(); j++ {
				if !fv.Index(j).IsNil() {
					out = append(out, fv.Index(j).Interface().(dst.Node))
				}
			}
		}
	}
	return out
}

type visitRec struct {
	n dst.Node // nil = after-children marker
}

// refLog is the reference traversal.
func refLog(n dst.Node, prune func(dst.Node) bool, out *[]visitRec) {
	*out = append(*out, visitRec{n})
	if prune(n) {
		return
	}
	for _, c := range dstChildren(n) {
		refLog(c, prune, out)
	}
	*out = append(*out, visitRec{nil})
}

func inspectLog(root dst.Node, prune func(dst.Node) bool) (log []visitRec, panicked string) {
	panicked = guard(func() {
		dst.Inspect(root, func(n dst.Node) bool {
			log = append(log, visitRec{n})
			if n == nil {
				return false
			}
			return !prune(n)
		})
	})
	return
}

func sameLog(a, b []visitRec) (int, bool) {
	for i := 0; i < len(a) || i < len(b); i++ {
		if i >= len(a) || i >= len(b) || a[i].n != b[i].n {
			return i, false
		}
	}
	return 0, true
}

func describeNode(n dst.Node) string {
	if n == nil {
		return "nil"
	}
	s := strings.TrimPrefix(fmt.Sprintf("%T", n), "*dst.")
	switch x := n.(type) {
	case *dst.Ident:
		s += "(" + x.Name + ")"
	case *dst.BasicLit:
		s += "(" + x.Value + ")"
	}
	return s
}

func logString(l []visitRec, around int) string {
	var b strings.Builder
	lo, hi := around-6, around+4
	for i, r := range l {
		if i < lo || i > hi {
			continue
		}
		mark := "  "
		if i == around {
			mark = "=>"
		}
		fmt.Fprintf(&b, "%s %3d %s\n", mark, i, describeNode(r.n))
	}
	return b.String()
}

// optional children: pointer/interface fields documented "or nil" in dst.go, which go/ast.Walk guards
var c13Optional = map[string][]string{
	"Field": {"Type", "Tag"}, "Ellipsis": {"Elt"}, "CompositeLit": {"Type"}, "SliceExpr": {"Low", "High", "Max"},
	"FuncType": {"TypeParams", "Results"}, "BranchStmt": {"Label"}, "IfStmt": {"Init", "Else"}, "SwitchStmt": {"Init", "Tag"},
	"TypeSwitchStmt": {"Init"}, "ForStmt": {"Init", "Cond", "Post"}, "RangeStmt": {"Key", "Value"}, "ImportSpec": {"Name"},
	"ValueSpec": {"Type"}, "TypeSpec": {"TypeParams"}, "FuncDecl": {"Recv", "Body"}, "ArrayType": {"Len"}, "CommClause": {"Comm"},
}

// c13Containers names the fields of n that point to a node which only groups a list (FieldList, BlockStmt).
func c13Containers(n dst.Node) []string {
	var out []string
	v := reflect.ValueOf(n).Elem()
	for i := 0; i < v.NumField(); i++ {
		switch v.Field(i).Type() {
		case reflect.TypeOf((*dst.FieldList)(nil)), reflect.TypeOf((*dst.BlockStmt)(nil)):
			out = append(out, v.Type().Field(i).Name)
		}
	}
	return out
}

func nodesOf(log []visitRec) []dst.Node {
	var out []dst.Node
	for _, r := range log {
		if r.n != nil {
			out = append(out, r.n)
		}
	}
	return out
}

// the canonical corpus plus valid files that are not gofmt's output (explicit empty statements, parentheses)
func c13Templates() []gen.Template {
	ts := append(append([]gen.Template{}, gen.Templates()...), gen.Load("noncanonical.txt")...)
	// sources with syntax errors: the parser's Bad nodes are nodes like any other
	return append(ts, gen.Load("broken.txt")...)
}

// c13Parse parses error-tolerantly: a file with syntax errors still gives a tree.
func c13Parse(fset *token.FileSet, src string) *ast.File {
	af, _ := parser.ParseFile(fset, "a.go", src, parser.ParseComments)
	if af == nil {
		panic("c13: no tree for " + src)
	}
	return af
}

func init() {
	core.Register(&core.Prop{
		ID:    "C13",
		Level: "model_checking",
		Rule: "for every corpus tree (canonical, non-canonical and syntactically broken sources with BadDecl/BadStmt/BadExpr nodes): Inspect/Walk visit logs under every single-node pruning predicate (one run per visited node; thorough: every pair of nodes), every node-type predicate, every removal of one optional child and of all at once, every field-list / block child replaced by an empty one (singly and all at once), the traversal rooted at every inner node instead of the file, the callback leaving through a panic at every call (no call may follow), " +
			"a visitor that hands a different visitor to each subtree, and a 3-file Package; oracle = reflection-derived child lists (exactly once, parent first, nil after children, pruned subtrees skipped) " +
			"and go/ast.Inspect of the original ast mapped through the decorator's node map; state = (tree, predicate); non-trivial = predicate that prunes a node with children",
		Assumptions: []string{"go/ast.Inspect of this toolchain is the reference traversal order", "struct field order of dst node types equals source order of children (checked against go/ast on every tree)"},
		Units: func(tier string) []string {
			var u []string
			for _, t := range c13Templates() {
				u = append(u, t.Name)
			}
			return append(u, "@package")
		},
		Run: runC13,
		Check: func(c core.Case) core.Outcome {
			var cs c13Case
			if err := json.Unmarshal(c, &cs); err != nil {
				panic(err)
			}
			return c13Check(cs, nil)
		},
	})
}

func runC13(ctx *core.Ctx, unit int) {
	ts := c13Templates()
	if unit == len(ts) {
		cs := c13Case{Mode: "package"}
		ctx.State("package", true)
		ctx.Eval(cs, c13Check(cs, ctx))
		return
	}
	t := ts[unit]
	fset0 := token.NewFileSet()
	f, err := decorator.NewDecorator(fset0).DecorateFile(c13Parse(fset0, t.Src))
	if err != nil {
		panic(err)
	}
	var ref []visitRec
	refLog(f, func(dst.Node) bool { return false }, &ref)
	run := func(cs c13Case, nontrivial bool) {
		ctx.State(fmt.Sprintf("%s|%s|%d|%d|%s|%s", t.Name, cs.Mode, cs.Index, cs.Index2, cs.Field, cs.Type), nontrivial)
		ctx.Eval(cs, c13Check(cs, ctx))
	}
	run(c13Case{Template: t.Name, Mode: "full"}, true)
	run(c13Case{Template: t.Name, Mode: "visitor"}, true)
	types := map[string]bool{}
	idx := 0
	for _, r := range ref {
		if r.n == nil {
			continue
		}
		tn := reflect.TypeOf(r.n).Elem().Name()
		types[tn] = true
		run(c13Case{Template: t.Name, Mode: "prune-node", Index: idx}, len(dstChildren(r.n)) > 0)
		for _, fld := range c13Optional[tn] {
			fv := reflect.ValueOf(r.n).Elem().FieldByName(fld)
			if !fv.IsNil() {
				run(c13Case{Template: t.Name, Mode: "remove", Index: idx, Field: fld}, true)
			}
		}
		if len(dstChildren(r.n)) > 0 {
			// traversal rooted at this node instead of the file
			run(c13Case{Template: t.Name, Mode: "root", Index: idx}, true)
		}
		idx++
	}
	run(c13Case{Template: t.Name, Mode: "remove-all"}, true)
	// every container child (field list, block) present but empty - a shape the parser produces only for
	// unusual sources (func f() () {}) and hand-built trees produce freely: each singly, and all at once
	for i, nd := range nodesOf(ref) {
		for _, fld := range c13Containers(nd) {
			run(c13Case{Template: t.Name, Mode: "empty", Index: i, Field: fld}, true)
		}
	}
	run(c13Case{Template: t.Name, Mode: "empty-all"}, true)
	// the visitor abandons the traversal (panic + recover, the stop-at-first-match idiom) at every call
	for k := range ref {
		run(c13Case{Template: t.Name, Mode: "abort", Index: k}, true)
	}
	if ctx.Thorough() {
		// every pair of pruned nodes (the second may lie inside the first, after it, or be a sibling)
		for i := 0; i < idx; i++ {
			for j := i + 1; j < idx; j++ {
				if ctx.Expired() {
					ctx.Cut("prune pairs")
					return
				}
				run(c13Case{Template: t.Name, Mode: "prune-pair", Index: i, Index2: j}, true)
			}
		}
	}
	for tn := range types {
		run(c13Case{Template: t.Name, Mode: "prune-type", Type: tn}, true)
	}
	ctx.Sample(c13Case{Template: t.Name, Mode: "prune-node", Index: idx / 2})
}

func c13Check(cs c13Case, ctx *core.Ctx) core.Outcome {
	fail := func(key, f string, a ...interface{}) core.Outcome {
		b, _ := json.Marshal(cs)
		return core.Outcome{Key: key, Desc: string(b) + "\n" + fmt.Sprintf(f, a...)}
	}
	if cs.Mode == "package" {
		return c13Package(fail)
	}
	t, ok := gen.Find(c13Templates(), cs.Template)
	if !ok {
		return fail("engine", "unknown template")
	}
	fset := token.NewFileSet()
	af := c13Parse(fset, t.Src)
	dec := decorator.NewDecorator(fset)
	f, err := dec.DecorateFile(af)
	if err != nil {
		return fail("decorate-error", "%v", err)
	}
	none := func(dst.Node) bool { return false }
	var full []visitRec
	refLog(f, none, &full)
	var nodes []dst.Node
	for _, r := range full {
		if r.n != nil {
			nodes = append(nodes, r.n)
		}
	}
	prune := none
	astPrune := func(ast.Node) bool { return false }
	switch cs.Mode {
	case "prune-node":
		target := nodes[cs.Index]
		prune = func(n dst.Node) bool { return n == target }
		astPrune = func(n ast.Node) bool { return dec.Dst.Nodes[n] == target }
	case "prune-type":
		prune = func(n dst.Node) bool { return reflect.TypeOf(n).Elem().Name() == cs.Type }
		astPrune = func(n ast.Node) bool { return reflect.TypeOf(n).Elem().Name() == cs.Type }
	case "prune-pair":
		t1, t2 := nodes[cs.Index], nodes[cs.Index2]
		prune = func(n dst.Node) bool { return n == t1 || n == t2 }
		astPrune = func(n ast.Node) bool { return dec.Dst.Nodes[n] == t1 || dec.Dst.Nodes[n] == t2 }
	case "remove":
		target := nodes[cs.Index]
		fv := reflect.ValueOf(target).Elem().FieldByName(cs.Field)
		fv.Set(reflect.Zero(fv.Type()))
	case "empty":
		fv := reflect.ValueOf(nodes[cs.Index]).Elem().FieldByName(cs.Field)
		fv.Set(reflect.New(fv.Type().Elem()))
	case "empty-all":
		for _, n := range nodes {
			for _, fld := range c13Containers(n) {
				fv := reflect.ValueOf(n).Elem().FieldByName(fld)
				fv.Set(reflect.New(fv.Type().Elem()))
			}
		}
	case "remove-all":
		for _, n := range nodes {
			for _, fld := range c13Optional[reflect.TypeOf(n).Elem().Name()] {
				fv := reflect.ValueOf(n).Elem().FieldByName(fld)
				fv.Set(reflect.Zero(fv.Type()))
			}
		}
	}
	if cs.Mode == "abort" {
		// after the visitor left through a panic no further call may be made (go/ast makes none)
		var all []visitRec
		refLog(f, none, &all)
		var got []visitRec
		func() {
			defer func() { recover() }()
			dst.Inspect(f, func(n dst.Node) bool {
				got = append(got, visitRec{n})
				if len(got) == cs.Index+1 {
					panic("stop")
				}
				return true
			})
		}()
		want := all[:cs.Index+1]
		if i, ok := sameLog(want, got); !ok {
			return fail("calls-after-the-visitor-panicked", "the callback panicked at call %d (recovered outside Inspect); the visit log must end there\nexpected:\n%sgot:\n%s", cs.Index, logString(want, i), logString(got, i))
		}
		if ctx != nil {
			ctx.R.Transitions += int64(len(want))
		}
		return core.Outcome{OK: true}
	}
	var root dst.Node = f
	var astRoot ast.Node = af
	if cs.Mode == "root" {
		root = nodes[cs.Index]
		astRoot = dec.Ast.Nodes[root]
		if astRoot == nil {
			return fail("root-unmapped", "node %d has no ast counterpart", cs.Index)
		}
	}
	var want []visitRec
	refLog(root, prune, &want)
	if ctx != nil {
		ctx.R.Transitions += int64(len(want))
	}

	if cs.Mode == "visitor" {
		return c13Visitor(f, want, fail)
	}
	got, pan := inspectLog(root, prune)
	if pan != "" {
		if cs.Mode == "remove-all" {
			return fail("nil-optional-children", "Inspect panicked with every optional child removed: %s", pan)
		}
		if cs.Mode == "remove" {
			return fail("nil-optional-child:"+reflect.TypeOf(nodes[cs.Index]).Elem().Name()+"."+cs.Field, "Inspect panicked: %s", pan)
		}
		return fail("panic:"+short(pan, 60), "Inspect panicked: %s", pan)
	}
	if i, ok := sameLog(want, got); !ok {
		key := "log-differs-from-child-lists:" + typeAt(want, got, i)
		if cs.Mode == "remove" {
			key = "nil-optional-child:" + reflect.TypeOf(nodes[cs.Index]).Elem().Name() + "." + cs.Field
		}
		if cs.Mode == "remove-all" {
			key = "nil-optional-children"
		}
		return fail(key, "visit log differs from the reflection-derived traversal at position %d\nexpected:\n%sgot:\n%s", i, logString(want, i), logString(got, i))
	}
	if cs.Mode != "remove" && cs.Mode != "remove-all" && cs.Mode != "empty" && cs.Mode != "empty-all" {
		// go/ast.Inspect of the twin, comments excluded, mapped through the node map
		var alog []visitRec
		var stack []bool // whether the node was logged
		ast.Inspect(astRoot, func(n ast.Node) bool {
			if n == nil {
				logged := stack[len(stack)-1]
				stack = stack[:len(stack)-1]
				if logged {
					alog = append(alog, visitRec{nil})
				}
				return false
			}
			switch n.(type) {
			case *ast.Comment, *ast.CommentGroup:
				return false
			}
			dn, ok := dec.Dst.Nodes[n]
			if !ok {
				alog = append(alog, visitRec{&dst.BadExpr{}}) // unmapped ast node: guaranteed mismatch
				return false
			}
			alog = append(alog, visitRec{dn})
			if astPrune(n) {
				return false
			}
			stack = append(stack, true)
			return true
		})
		if i, ok := sameLog(alog, got); !ok {
			return fail("log-differs-from-go/ast:"+typeAt(alog, got, i), "visit log differs from go/ast.Inspect of the original ast (mapped through Decorator.Dst.Nodes) at position %d\nexpected:\n%sgot:\n%s", i, logString(alog, i), logString(got, i))
		}
	}
	return core.Outcome{OK: true}
}

func typeAt(a, b []visitRec, i int) string {
	s := "end"
	if i < len(a) {
		s = describeNode(a[i].n)
	}
	if p := strings.Index(s, "("); p > 0 {
		s = s[:p]
	}
	return s
}

// idVisitor hands each subtree its own visitor; Walk must call w.Visit for the children and the
// final nil on the visitor returned for that node.
type idVisitor struct {
	id  int
	log *[][2]interface{}
	ids map[dst.Node]int
}

func (v idVisitor) Visit(n dst.Node) dst.Visitor {
	*v.log = append(*v.log, [2]interface{}{v.id, n})
	if n == nil {
		return nil
	}
	id := len(v.ids) + 1
	v.ids[n] = id
	return idVisitor{id: id, log: v.log, ids: v.ids}
}

func c13Visitor(f *dst.File, want []visitRec, fail func(string, string, ...interface{}) core.Outcome) core.Outcome {
	var log [][2]interface{}
	ids := map[dst.Node]int{}
	if pan := guard(func() { dst.Walk(idVisitor{id: 0, log: &log, ids: ids}, f) }); pan != "" {
		return fail("panic:"+short(pan, 60), "Walk panicked: %s", pan)
	}
	// expected: node n is visited by the visitor of its parent; the nil after n's children by n's visitor
	var stack []dst.Node
	parentOf := func() int {
		if len(stack) == 0 {
			return 0
		}
		return ids[stack[len(stack)-1]]
	}
	if len(log) != len(want) {
		return fail("visitor-log-length", "Walk made %d Visit calls, expected %d", len(log), len(want))
	}
	for i, r := range want {
		gotID, gotN := log[i][0].(int), log[i][1]
		if r.n == nil {
			if gotN != nil && !reflect.ValueOf(gotN).IsNil() {
				return fail("visitor-order", "call %d: expected Visit(nil), got %T", i, gotN)
			}
			if gotID != parentOf() {
				return fail("visitor-wrong-visitor-for-nil", "call %d: Visit(nil) after the children of %s went to visitor %d, expected the visitor returned for that node (%d)", i, describeNode(stack[len(stack)-1]), gotID, parentOf())
			}
			stack = stack[:len(stack)-1]
			continue
		}
		if gotN != interface{}(r.n) {
			return fail("visitor-order", "call %d: expected %s", i, describeNode(r.n))
		}
		if gotID != parentOf() {
			return fail("visitor-wrong-visitor", "call %d: %s visited by visitor %d, expected its parent's visitor %d", i, describeNode(r.n), gotID, parentOf())
		}
		stack = append(stack, r.n)
	}
	return core.Outcome{OK: true}
}

func c13Package(fail func(string, string, ...interface{}) core.Outcome) core.Outcome {
	fset := token.NewFileSet()
	files := map[string]*ast.File{}
	for i, name := range []string{"vars", "funcs", "structtags"} {
		t, _ := gen.Find(c13Templates(), name)
		af, err := parser.ParseFile(fset, fmt.Sprintf("f%d.go", i), t.Src, parser.ParseComments)
		if err != nil {
			panic(err)
		}
		files[fmt.Sprintf("f%d.go", i)] = af
	}
	ap := &ast.Package{Name: "a", Files: files}
	dec := decorator.NewDecorator(fset)
	dn, err := dec.DecorateNode(ap)
	if err != nil {
		return fail("decorate-error", "%v", err)
	}
	pkg := dn.(*dst.Package)
	got, pan := inspectLog(pkg, func(dst.Node) bool { return false })
	if pan != "" {
		return fail("panic:"+short(pan, 60), "Inspect(Package) panicked: %s", pan)
	}
	// split into per-file logs: file order is a map order on both sides
	if len(got) < 2 || got[0].n != dst.Node(pkg) || got[len(got)-1].n != nil {
		return fail("package-log", "Package not visited first / nil not last")
	}
	body := got[1 : len(got)-1]
	seen := map[*dst.File]bool{}
	for len(body) > 0 {
		f, ok := body[0].n.(*dst.File)
		if !ok {
			return fail("package-log", "expected a File at top level of the Package traversal, got %s", describeNode(body[0].n))
		}
		if seen[f] {
			return fail("package-file-twice", "file visited twice")
		}
		seen[f] = true
		var want []visitRec
		refLog(f, func(dst.Node) bool { return false }, &want)
		if len(body) < len(want) {
			return fail("package-log", "file log truncated")
		}
		if i, ok := sameLog(want, body[:len(want)]); !ok {
			return fail("package-file-log-differs", "file log differs at %d\nexpected:\n%sgot:\n%s", i, logString(want, i), logString(body[:len(want)], i))
		}
		body = body[len(want):]
	}
	if len(seen) != 3 {
		return fail("package-files", "visited %d of 3 files", len(seen))
	}
	return core.Outcome{OK: true}
}
