package props

import (
	"encoding/json"
	"fmt"
	"go/ast"
	"go/parser"
	"go/token"
	"reflect"
	"sort"
	"strings"

	"github.com/dave/dst"
	"github.com/dave/dst/decorator"
	"github.com/dave/dst/dstutil"
	"golang.org/x/tools/go/ast/astutil"

	"verif/core"
	"verif/explore"
)

// C14: Apply follows astutil semantics for traversal and cursor edits.

var c14Sources = []struct{ Name, Src string }{
	{"stmts", "package p\n\nfunc f() {\n\ta()\n\tb()\n\tc()\n}\n"},
	{"decls", "package p\n\nvar a int\n\nvar b int\n\nfunc c() {}\n"},
	{"args", "package p\n\nvar _ = f(a, b, c)\n"},
	{"specs", "package p\n\nvar (\n\ta int\n\tb int\n\tc int\n)\n"},
	{"params", "package p\n\nfunc f(a, b int, c string)\n"},
	{"case", "package p\n\nfunc f() {\n\tswitch x {\n\tcase 1, 2:\n\t\ta()\n\t\tb()\n\t}\n}\n"},
	{"comm", "package p\n\nfunc f() {\n\tselect {\n\tcase <-c:\n\t\ta()\n\t\tb()\n\t}\n}\n"},
	{"elts", "package p\n\nvar _ = []int{1, 2, 3}\n"},
	{"assign", "package p\n\nfunc f() {\n\ta, b = c, d\n}\n"},
	{"values", "package p\n\nvar a, b = 1, 2\n"},
	{"results", "package p\n\nfunc f() (int, int) {\n\treturn a, b\n}\n"},
	{"indices", "package p\n\nvar _ = f[a, b]\n"},
	{"nested", "package p\n\nfunc f() {\n\tg(h(a, b), c)\n}\n"},
	{"fields", "package p\n\ntype T struct {\n\tA int\n\tB string\n}\n"},
	{"generic", "package p\n\nfunc F[T any, U any](t T) {}\n\ntype G[T any] struct{}\n"},
	{"@package", ""},
	// roots that are not files (Replace of the root is legal there)
	{"@root:decl", "package p\n\nfunc f() {\n\ta()\n\tb()\n}\n"},
	{"@root:expr", "package p\n\nvar _ = f(a, b)\n"},
	{"@root:stmt", "package p\n\nfunc f() {\n\tif a {\n\t\tb()\n\t}\n}\n"},
}

// actions on the current element
var c14Actions = []string{"", "Replace", "Delete", "InsertBefore", "InsertAfter", "false",
	"Replace+Delete", "Replace+InsertBefore", "Replace+InsertAfter", "Delete+Replace", "Delete+Delete", "Delete+InsertBefore", "Delete+InsertAfter",
	"InsertBefore+Replace", "InsertBefore+Delete", "InsertBefore+InsertBefore", "InsertBefore+InsertAfter",
	"InsertAfter+Replace", "InsertAfter+Delete", "InsertAfter+InsertBefore", "InsertAfter+InsertAfter", "Replace+false", "Delete+false"}

type c14Case struct {
	Source  string `json:"source"`
	Choices []int  `json:"choices"` // per site (pre0, post0, pre1, post1, ...): index into c14Actions
	Script  string `json:"script,omitempty"`
}

const c14Shards = 4

func init() {
	core.Register(&core.Prop{
		ID:    "C14",
		Level: "model_checking",
		Rule: "twin trees (dst via the decorator, go/ast via go/parser) for 15 small sources covering every list field, a 3-file Package, and three non-file roots (declaration, expression, statement); a script assigns actions to sites (pre|post x node): quick = every 1-site script over 22 actions and every 2-site script over the 6 basic actions; thorough = every 2-site script over 22 actions and every 3-site script over the basic ones; the 22 actions are " +
			"(Replace, Delete, InsertBefore, InsertAfter, every ordered pair of them on the same element, return false, edit then false); every script is run through dstutil.Apply and golang.org/x/tools astutil.Apply (choice-tree exploration); " +
			"oracle: identical callback logs (phase, node, parent, Name, Index), identical panics, identical final trees, plus Parent/Name/Index locate Node at every callback; state = distinct callback log; non-trivial = script with at least one action",
		Assumptions: []string{"golang.org/x/tools v0.1.12 astutil.Apply is the reference; its Doc/Comment callbacks and nil TypeParams callbacks are removed from the comparison"},
		Units: func(tier string) []string {
			var u []string
			for _, s := range c14Sources {
				for i := 0; i < c14Shards; i++ {
					u = append(u, fmt.Sprintf("%s#%d", s.Name, i))
				}
			}
			return u
		},
		Run: func(ctx *core.Ctx, unit int) {
			src := c14Sources[unit/c14Shards]
			n := c14NodeCount(src.Name)
			// pass 1: scripts over the full 22-action alphabet; pass 2: one more site, basic 6 actions
			type pass struct{ k, nact, minDev int }
			passes := []pass{{1, len(c14Actions), 0}, {2, 6, 2}}
			if ctx.Thorough() {
				passes = []pass{{2, len(c14Actions), 0}, {3, 6, 3}}
			}
			for _, ps := range passes {
				ps := ps
				tree := &explore.Tree{Bound: ps.k, Shard: unit % c14Shards, NShards: c14Shards, Stop: ctx.Expired}
				tree.Explore(func(c *explore.Chooser) {
					for i := 0; i < 2*n; i++ {
						c.Choose(ps.nact)
					}
					if explore.SkipJudge() || c.Deviations() < ps.minDev {
						return
					}
					cs := c14Case{Source: src.Name, Choices: append([]int{}, c.Choices...)}
					o, logKey := c14Run(cs)
					ctx.State(src.Name+"|"+logKey, c.Deviations() > 0)
					cs.Script = c14ScriptString(cs.Choices)
					ctx.Eval(cs, o)
					if c.Deviations() == 2 {
						ctx.Sample(cs)
					}
				})
				ctx.R.Transitions += tree.Transitions
				if tree.Cut {
					ctx.Cut("scripts")
				}
			}
		},
		Check: func(c core.Case) core.Outcome {
			var cs c14Case
			if err := json.Unmarshal(c, &cs); err != nil {
				panic(err)
			}
			o, _ := c14Run(cs)
			return o
		},
	})
}

func c14ScriptString(ch []int) string {
	var s []string
	for i, a := range ch {
		if a != 0 {
			ph := "pre"
			if i%2 == 1 {
				ph = "post"
			}
			s = append(s, fmt.Sprintf("%s(n%d):%s", ph, i/2, c14Actions[a]))
		}
	}
	return strings.Join(s, " ")
}

type c14Twin struct {
	aroot ast.Node
	droot dst.Node
	alab  map[ast.Node]string
	dlab  map[dst.Node]string
	n     int
}

func c14Build(name string) *c14Twin {
	fset := token.NewFileSet()
	tw := &c14Twin{alab: map[ast.Node]string{}, dlab: map[dst.Node]string{}}
	dec := decorator.NewDecorator(fset)
	label := func(root ast.Node) {
		for _, a := range allAstNodes(root) {
			l := fmt.Sprintf("n%d", tw.n)
			tw.n++
			tw.alab[a] = l
			if d, ok := dec.Dst.Nodes[a]; ok {
				tw.dlab[d] = l
			}
		}
	}
	if name == "@package" {
		files := map[string]*ast.File{}
		for i, s := range []string{"stmts", "values", "args"} {
			for _, cs := range c14Sources {
				if cs.Name == s {
					f, err := parser.ParseFile(fset, fmt.Sprintf("f%d.go", i), cs.Src, 0)
					if err != nil {
						panic(err)
					}
					files[fmt.Sprintf("f%d.go", i)] = f
				}
			}
		}
		pkg := &ast.Package{Name: "p", Files: files}
		dn, err := dec.DecorateNode(pkg)
		if err != nil {
			panic(err)
		}
		tw.aroot, tw.droot = pkg, dn
		tw.alab[pkg], tw.dlab[dn] = "pkg", "pkg"
		var names []string
		for k := range files {
			names = append(names, k)
		}
		sort.Strings(names)
		for _, k := range names {
			label(files[k])
		}
		return tw
	}
	for _, cs := range c14Sources {
		if cs.Name == name {
			f, err := parser.ParseFile(fset, "a.go", cs.Src, 0)
			if err != nil {
				panic(err)
			}
			df, err := dec.DecorateFile(f)
			if err != nil {
				panic(err)
			}
			tw.aroot, tw.droot = f, df
			switch name {
			case "@root:decl":
				tw.aroot = f.Decls[0]
			case "@root:expr":
				tw.aroot = f.Decls[0].(*ast.GenDecl).Specs[0].(*ast.ValueSpec).Values[0]
			case "@root:stmt":
				tw.aroot = f.Decls[0].(*ast.FuncDecl).Body.List[0]
			}
			if tw.aroot != ast.Node(f) {
				tw.droot = dec.Dst.Nodes[tw.aroot]
			}
			label(tw.aroot)
			return tw
		}
	}
	panic("unknown source " + name)
}

var c14Counts = map[string]int{}

func c14NodeCount(name string) int {
	if n, ok := c14Counts[name]; ok {
		return n
	}
	n := c14Build(name).n
	c14Counts[name] = n
	return n
}

type c14Horizon struct{}

// c14Run drives both Apply implementations with the same script and compares.
func c14Run(cs c14Case) (core.Outcome, string) {
	tw := c14Build(cs.Source)
	fail := func(key, f string, a ...interface{}) (core.Outcome, string) {
		return core.Outcome{Key: key, Desc: fmt.Sprintf("source %s, script: %s\n", cs.Source, c14ScriptString(cs.Choices)) + fmt.Sprintf(f, a...)}, ""
	}
	action := func(label, phase string) string {
		if !strings.HasPrefix(label, "n") {
			return ""
		}
		var i int
		fmt.Sscanf(label, "n%d", &i)
		idx := 2 * i
		if phase == "post" {
			idx++
		}
		if idx >= len(cs.Choices) {
			return ""
		}
		return c14Actions[cs.Choices[idx]]
	}
	horizon := 40 * (tw.n + 5)

	// ---- dst side
	var dlog []string
	newD := 0
	var invariant string
	dcb := func(phase string) dstutil.ApplyFunc {
		return func(c *dstutil.Cursor) bool {
			if len(dlog) > horizon {
				panic(c14Horizon{})
			}
			lab := "<nil>"
			if c.Node() != nil {
				lab = tw.dlab[c.Node()]
			}
			dlog = append(dlog, fmt.Sprintf("%s %s parent=%s name=%s index=%d", phase, lab, tw.dlab[c.Parent()], c.Name(), c.Index()))
			// Parent/Name/Index locate Node
			// (not after the script itself replaced or deleted this element in its pre callback)
			if c.Parent() != nil && invariant == "" && (phase == "pre" || action(lab, "pre") == "") {
				if _, isPkg := c.Parent().(*dst.Package); !isPkg {
					fv := reflect.Indirect(reflect.ValueOf(c.Parent())).FieldByName(c.Name())
					if fv.IsValid() {
						var at interface{}
						if c.Index() >= 0 {
							if c.Index() < fv.Len() {
								at = fv.Index(c.Index()).Interface()
							}
						} else {
							at = fv.Interface()
						}
						if c.Node() != nil && at != interface{}(c.Node()) {
							invariant = fmt.Sprintf("at %s of %s: parent.%s[%d] is not the current node", phase, lab, c.Name(), c.Index())
						}
					}
				}
			}
			act := action(lab, phase)
			for _, a := range strings.Split(act, "+") {
				switch a {
				case "Replace":
					newD++
					nn := reflect.New(reflect.TypeOf(c.Node()).Elem()).Interface().(dst.Node)
					tw.dlab[nn] = fmt.Sprintf("new%d", newD)
					c.Replace(nn)
				case "Delete":
					c.Delete()
				case "InsertBefore", "InsertAfter":
					newD++
					nn := reflect.New(reflect.TypeOf(c.Node()).Elem()).Interface().(dst.Node)
					tw.dlab[nn] = fmt.Sprintf("new%d", newD)
					if a == "InsertBefore" {
						c.InsertBefore(nn)
					} else {
						c.InsertAfter(nn)
					}
				case "false":
					return false
				}
			}
			return true
		}
	}
	var dres dst.Node
	dpanic := c14Guard(func() { dres = dstutil.Apply(tw.droot, dcb("pre"), dcb("post")) })

	// ---- ast side
	var alog []string
	newA := 0
	skipDepth := 0
	acb := func(phase string) astutil.ApplyFunc {
		return func(c *astutil.Cursor) bool {
			if len(alog) > horizon {
				panic(c14Horizon{})
			}
			// astutil also walks Doc/Comment fields and comment groups: not part of dst's model
			switch c.Node().(type) {
			case *ast.CommentGroup, *ast.Comment:
				return true
			}
			if c.Name() == "Doc" || c.Name() == "Comment" {
				return true
			}
			_ = skipDepth
			lab := "<nil>"
			if c.Node() != nil && !reflect.ValueOf(c.Node()).IsNil() {
				lab = tw.alab[c.Node()]
			}
			alog = append(alog, fmt.Sprintf("%s %s parent=%s name=%s index=%d", phase, lab, tw.alab[c.Parent()], c.Name(), c.Index()))
			act := action(lab, phase)
			for _, a := range strings.Split(act, "+") {
				switch a {
				case "Replace":
					newA++
					nn := reflect.New(reflect.TypeOf(c.Node()).Elem()).Interface().(ast.Node)
					tw.alab[nn] = fmt.Sprintf("new%d", newA)
					c.Replace(nn)
				case "Delete":
					c.Delete()
				case "InsertBefore", "InsertAfter":
					newA++
					nn := reflect.New(reflect.TypeOf(c.Node()).Elem()).Interface().(ast.Node)
					tw.alab[nn] = fmt.Sprintf("new%d", newA)
					if a == "InsertBefore" {
						c.InsertBefore(nn)
					} else {
						c.InsertAfter(nn)
					}
				case "false":
					return false
				}
			}
			return true
		}
	}
	var ares ast.Node
	apanic := c14Guard(func() { ares = astutil.Apply(tw.aroot, acb("pre"), acb("post")) })

	// normalise: nil TypeParams callbacks exist only on the dst side
	norm := func(l []string) []string {
		var out []string
		for _, e := range l {
			if strings.Contains(e, " <nil> ") && strings.Contains(e, "name=TypeParams ") {
				continue
			}
			out = append(out, e)
		}
		return out
	}
	dl, al := norm(dlog), norm(alog)
	logKey := fmt.Sprintf("%x", core.Hash(strings.Join(dl, "\n")))
	for i := 0; i < len(dl) || i < len(al); i++ {
		var d, a string
		if i < len(dl) {
			d = dl[i]
		}
		if i < len(al) {
			a = al[i]
		}
		if d != a {
			return fail("callback-log-differs:"+firstWord(a)+"/"+firstWord(d), "callback %d differs\n  astutil: %s\n  dstutil: %s\nastutil outcome %q, dstutil outcome %q\nastutil log:\n  %s\ndstutil log:\n  %s", i, a, d, apanic, dpanic, strings.Join(al, "\n  "), strings.Join(dl, "\n  "))
		}
	}
	if dn, an := strings.ReplaceAll(dpanic, "dst", "ast"), apanic; dn != an {
		return fail("panic-differs", "astutil outcome: %q\ndstutil outcome: %q", apanic, dpanic)
	}
	if invariant != "" {
		return fail("cursor-does-not-locate-node", "%s", invariant)
	}
	if dpanic == "" {
		ds, as := c14TreeD(dres, tw), c14TreeA(ares, tw)
		if ds != as {
			return fail("final-tree-differs", "final trees differ\n  astutil: %s\n  dstutil: %s", as, ds)
		}
	}
	return core.Outcome{OK: true}, logKey
}

func firstWord(s string) string {
	f := strings.Fields(s)
	if len(f) == 0 {
		return "<none>"
	}
	return f[0]
}

func c14Guard(f func()) (out string) {
	defer func() {
		if r := recover(); r != nil {
			if _, ok := r.(c14Horizon); ok {
				out = "horizon reached (non-terminating script)"
				return
			}
			out = fmt.Sprintf("panic: %v", r)
			// reflect panics mention the concrete type's package
			out = strings.ReplaceAll(out, "*ast.", "*X.")
			out = strings.ReplaceAll(out, "*dst.", "*X.")
			out = strings.ReplaceAll(out, "ast.", "X.")
			out = strings.ReplaceAll(out, "dst.", "X.")
		}
	}()
	f()
	return ""
}

func c14TreeD(n dst.Node, tw *c14Twin) string {
	if n == nil || reflect.ValueOf(n).IsNil() {
		return "nil"
	}
	l, ok := tw.dlab[n]
	if !ok {
		l = "?"
	}
	var parts []string
	if p, ok := n.(*dst.Package); ok {
		var names []string
		for k := range p.Files {
			names = append(names, k)
		}
		sort.Strings(names)
		for _, k := range names {
			parts = append(parts, k+":"+c14TreeD(p.Files[k], tw))
		}
		return l + "(" + strings.Join(parts, " ") + ")"
	}
	for _, s := range nodeSlots(n) {
		c := s.Get()
		if c == nil {
			if s.Index >= 0 {
				parts = append(parts, "nil")
			}
			continue
		}
		parts = append(parts, c14TreeD(c, tw))
	}
	if len(parts) == 0 {
		return l
	}
	return l + "(" + strings.Join(parts, " ") + ")"
}

func c14TreeA(n ast.Node, tw *c14Twin) string {
	if n == nil || reflect.ValueOf(n).IsNil() {
		return "nil"
	}
	l, ok := tw.alab[n]
	if !ok {
		l = "?"
	}
	var parts []string
	if p, ok := n.(*ast.Package); ok {
		var names []string
		for k := range p.Files {
			names = append(names, k)
		}
		sort.Strings(names)
		for _, k := range names {
			parts = append(parts, k+":"+c14TreeA(p.Files[k], tw))
		}
		return l + "(" + strings.Join(parts, " ") + ")"
	}
	v := reflect.ValueOf(n).Elem()
	t := v.Type()
	for i := 0; i < t.NumField(); i++ {
		f := t.Field(i)
		if f.Name == "Doc" || f.Name == "Comment" || f.Name == "Comments" || (t.Name() == "File" && (f.Name == "Imports" || f.Name == "Unresolved")) {
			continue
		}
		fv := v.Field(i)
		switch {
		case f.Type.Implements(astNodeIface):
			if !fv.IsNil() {
				parts = append(parts, c14TreeA(fv.Interface().(ast.Node), tw))
			}
		case f.Type.Kind() == reflect.Slice && f.Type.Elem().Implements(astNodeIface):
			for j := 0; j < fv.Len(); j++ {
				if fv.Index(j).IsNil() {
					parts = append(parts, "nil")
				} else {
					parts = append(parts, c14TreeA(fv.Index(j).Interface().(ast.Node), tw))
				}
			}
		}
	}
	if len(parts) == 0 {
		return l
	}
	return l + "(" + strings.Join(parts, " ") + ")"
}
