package props

import (
	"bytes"
	"encoding/json"
	"fmt"
	"go/parser"
	"go/token"
	"os"
	"path/filepath"
	"regexp"
	"strings"

	"github.com/dave/dst"
	"github.com/dave/dst/decorator"
	"github.com/dave/dst/decorator/resolver/goast"
	"github.com/dave/dst/decorator/resolver/guess"

	"verif/core"
	"verif/gen"
)

// C15: no input makes parsing or printing panic.

type c15Case struct {
	Src  string `json:"src"`
	From string `json:"from,omitempty"`
}

var c15Bytes = []string{"{", "}", "(", ")", "[", "]", ";", ",", ".", ":", "\"", "'", "`", "/", "*", "\n", "\x00", "\xff", "=", "<"}

var c15Lexemes = []string{"package", "a", "\n", "func", "(", ")", "{", "}", "var", "=", "import", "\"x\"", "/*c*/", ";", "type", "//c\n", "[", "]", ",", "."}

var c15Modes = []parser.Mode{parser.PackageClauseOnly, parser.ImportsOnly, parser.SkipObjectResolution | parser.AllErrors, parser.DeclarationErrors}

var c15Kinds = []string{"truncate", "byte-insert", "byte-subst", "token-del-dup-swap", "token-del-pairs"}

const c15LexShards = 20

func init() {
	core.Register(&core.Prop{
		ID:    "C15",
		Level: "model_checking",
		Rule: "for every corpus template: every prefix and suffix (also of the CRLF version of the file), every single-byte insertion and substitution from a 20-byte alphabet at every offset, every token deleted / duplicated / swapped with its neighbour, every pair of token deletions; " +
			"plus every string of <=5 (quick) / <=6 (thorough) lexemes over a 20-lexeme alphabet; each through decorator.Parse, and (all but the byte-edit and pair inputs) Decorator.ParseFile in 4 parser modes and ParseDir (plain, and through a Decorator with the syntax-based resolver) on a directory holding the input next to a valid file, and Fprint of every tree returned, directly and through a Restorer whose FileSet already holds a file; " +
			"oracle: no panic escapes; state = distinct input; non-trivial = input rejected by go/parser (error paths)",
		Assumptions:      []string{"corruptions are single/double edits of corpus files and short lexeme strings"},
		CrashIsViolation: true,
		Units: func(tier string) []string {
			var u []string
			for _, t := range gen.Templates() {
				for _, k := range c15Kinds {
					u = append(u, t.Name+"/"+k)
				}
			}
			for i := 0; i < c15LexShards; i++ {
				u = append(u, fmt.Sprintf("lexemes/first=%d", i))
			}
			return u
		},
		Run: runC15,
		Check: func(c core.Case) core.Outcome {
			var cs c15Case
			if err := json.Unmarshal(c, &cs); err != nil {
				panic(err)
			}
			o, _ := c15Check(cs.Src, true)
			return o
		},
	})
}

func runC15(ctx *core.Ctx, unit int) {
	ts := gen.Templates()
	byConstruction := false // lexeme strings are pairwise distinct by construction: counted, not hashed
	try := func(src, from string, allModes bool) {
		if ctx.Expired() {
			return
		}
		o, rejected := c15Check(src, allModes)
		if byConstruction {
			ctx.CountState(rejected)
		} else if !ctx.State(src, rejected) {
			ctx.Count("duplicate_inputs", 1)
		}
		ctx.R.Transitions++
		cs := c15Case{Src: src, From: from}
		ctx.Eval(cs, o)
	}
	if unit >= len(ts)*len(c15Kinds) {
		first := unit - len(ts)*len(c15Kinds)
		maxLen := 5
		if ctx.Thorough() {
			maxLen = 6
		}
		byConstruction = true
		var rec func(prefix []int)
		rec = func(prefix []int) {
			var b strings.Builder
			for _, i := range prefix {
				b.WriteString(c15Lexemes[i])
				b.WriteString(" ")
			}
			try(b.String(), "lexemes", false)
			if len(prefix) == 3 && prefix[1] == 2 {
				ctx.Sample(c15Case{Src: b.String(), From: "lexemes"})
			}
			if len(prefix) >= maxLen || ctx.Expired() {
				return
			}
			for i := range c15Lexemes {
				rec(append(prefix, i))
			}
		}
		rec([]int{first})
		byConstruction = false
		if first == 0 {
			try("", "empty", true)
			try(" ", "blank", true)
			try("\n", "blank", true)
			try("// only a comment\n", "comment-only", true)
			try("/* unterminated", "comment-only", true)
			try("package", "no-name", true)
			try("package \n", "no-name", true)
			try("\xef\xbb\xbf", "bom-only", true)
		}
		if ctx.Expired() {
			ctx.Cut("lexeme strings")
		}
		return
	}
	t := ts[unit/len(c15Kinds)]
	src := t.Src
	kind := c15Kinds[unit%len(c15Kinds)]
	toks, _ := gen.Tokens(src, true)
	switch kind {
	case "truncate":
		for i := 0; i <= len(src); i++ {
			try(src[:i], t.Name+"/prefix", true)
			try(src[i:], t.Name+"/suffix", true)
		}
		// the same file with CRLF line ends, cut everywhere (also between the CR and the LF)
		crlf := strings.ReplaceAll(src, "\n", "\r\n")
		for i := 0; i <= len(crlf); i++ {
			try(crlf[:i], t.Name+"/crlf-prefix", false)
			try(crlf[i:], t.Name+"/crlf-suffix", false)
		}
	case "byte-insert":
		for i := 0; i <= len(src); i++ {
			for _, b := range c15Bytes {
				try(src[:i]+b+src[i:], t.Name+"/insert", false)
			}
		}
	case "byte-subst":
		for i := 0; i < len(src); i++ {
			for _, b := range c15Bytes {
				try(src[:i]+b+src[i+1:], t.Name+"/subst", false)
			}
		}
	case "token-del-dup-swap":
		for i, tk := range toks {
			try(src[:tk.Off]+src[tk.End:], t.Name+"/tokdel", true)
			try(src[:tk.End]+" "+src[tk.Off:tk.End]+src[tk.End:], t.Name+"/tokdup", true)
			if i+1 < len(toks) {
				n := toks[i+1]
				try(src[:tk.Off]+src[n.Off:n.End]+src[tk.End:n.Off]+src[tk.Off:tk.End]+src[n.End:], t.Name+"/tokswap", true)
			}
		}
	case "token-del-pairs":
		for i := range toks {
			for j := i + 1; j < len(toks); j++ {
				a, b := toks[i], toks[j]
				try(src[:a.Off]+src[a.End:b.Off]+src[b.End:], t.Name+"/tokdel2", false)
			}
		}
	}
	ctx.Sample(c15Case{Src: src[:len(src)/2], From: t.Name + "/prefix"})
	if ctx.Expired() {
		ctx.Cut(kind)
	}
}

// c15Check runs every entry point on src; rejected reports whether go/parser reported an error.
func c15Check(src string, allModes bool) (core.Outcome, bool) {
	rejected := false
	run := func(name string, parse func() (*dst.File, error)) *core.Outcome {
		var f *dst.File
		var err error
		if p := guard(func() { f, err = parse() }); p != "" {
			return &core.Outcome{Key: "parse-panic:" + c15Key(p), Desc: fmt.Sprintf("%s panicked: %s\ninput: %q", name, p, src)}
		}
		if err != nil {
			rejected = true
		}
		if f == nil {
			if err == nil {
				return &core.Outcome{Key: "nil-tree-nil-error", Desc: fmt.Sprintf("%s returned neither a tree nor an error\ninput: %q", name, src)}
			}
			return nil
		}
		var buf bytes.Buffer
		if p := guard(func() { _ = decorator.Fprint(&buf, f) }); p != "" {
			return &core.Outcome{Key: "print-panic:" + c15Key(p), Desc: fmt.Sprintf("Fprint of the tree returned by %s panicked: %s\ninput: %q", name, p, src)}
		}
		// and as a later file of a Restorer's FileSet (what Package.Save does with every file but the first)
		if p := guard(func() { _, _ = printFileLate(f) }); p != "" {
			return &core.Outcome{Key: "late-print-panic:" + c15Key(p), Desc: fmt.Sprintf("printing the tree returned by %s through a Restorer whose FileSet already holds a file panicked: %s\ninput: %q", name, p, src)}
		}
		return nil
	}
	if o := run("decorator.Parse", func() (*dst.File, error) { return decorator.Parse(src) }); o != nil {
		return *o, rejected
	}
	if allModes {
		// ParseDir: the input as one file of a directory next to a valid sibling
		if p := guard(func() { c15ParseDir(src) }); p != "" {
			return core.Outcome{Key: "parsedir-panic:" + c15Key(p), Desc: fmt.Sprintf("decorator.ParseDir panicked on a directory holding this file: %s\ninput: %q", p, src)}, rejected
		}
		for _, m := range c15Modes {
			m := m
			if o := run(fmt.Sprintf("Decorator.ParseFile(mode=%d)", m), func() (*dst.File, error) {
				return decorator.NewDecorator(token.NewFileSet()).ParseFile("x.go", []byte(src), m)
			}); o != nil {
				return *o, rejected
			}
		}
	}
	return core.Outcome{OK: true}, rejected
}

var c15Digits = regexp.MustCompile(`[0-9]+`)

// c15Key groups panics by message with the numbers masked (index values differ from input to input).
func c15Key(p string) string { return short(c15Digits.ReplaceAllString(p, "N"), 120) }

func c15ParseDir(src string) {
	dir, err := scratchDir("c15dir")
	if err != nil {
		panic(err)
	}
	defer os.RemoveAll(dir)
	os.WriteFile(filepath.Join(dir, "a.go"), []byte(src), 0o644)
	os.WriteFile(filepath.Join(dir, "b.go"), []byte("package a\n\nvar ok = 1\n"), 0o644)
	// the same directory through a Decorator that has a (syntax-based) identifier resolver
	if rp, rerr := decorator.NewDecoratorWithImports(token.NewFileSet(), "example.com/p", goast.New()).ParseDir(dir, nil, 0); rerr == nil {
		for _, p := range rp {
			for _, f := range p.Files {
				var buf bytes.Buffer
				_ = decorator.NewRestorerWithImports("example.com/p", guess.New()).Fprint(&buf, f)
			}
		}
	}
	pkgs, err := decorator.ParseDir(token.NewFileSet(), dir, nil, 0)
	if err != nil {
		return
	}
	for _, p := range pkgs {
		for _, f := range p.Files {
			var buf bytes.Buffer
			_ = decorator.Fprint(&buf, f)
		}
	}
}
