//go:build verifsched

package props

import (
	"bytes"
	"encoding/json"
	"fmt"
	"go/ast"
	"go/build"
	"go/parser"
	"go/token"
	"os"
	"os/exec"
	"sort"
	"strings"

	"github.com/dave/dst"
	"github.com/dave/dst/decorator"
	"github.com/dave/dst/decorator/resolver"
	"github.com/dave/dst/decorator/resolver/goast"
	"github.com/dave/dst/decorator/resolver/gobuild"
	"github.com/dave/dst/decorator/resolver/guess"
	"github.com/dave/dst/decorator/resolver/simple"
	"github.com/dave/dst/vsched"

	"verif/core"
	"verif/explore"
	"verif/gen"
)

// C16: concurrent use of separate decorators/restorers is race-free and deterministic.

type c16Case struct {
	Kind     string `json:"kind"` // "threads" | "maporder" | "race-detector"
	Scenario string `json:"scenario"`
	Threads  int    `json:"threads,omitempty"`
	Choices  []int  `json:"choices,omitempty"`
}

// "+vendored": the threads' files import packages through vendored paths (the decorator strips the
// vendor prefix of every resolved path: code that only runs for such paths)
// "helpers": the threads use the package-level helpers decorator.Parse and decorator.Fprint.
// "unshared+caching": every thread's restorer has a package-name resolver of its own that caches in a
// plain map (legal: it is not shared); the library must not call it from several goroutines at once
var c16ThreadScenarios = []string{"goast.New+guess", "goast.WithResolver(simple)+simple", "goast.New+guess.WithMap", "unshared", "unshared+vendored", "goast.New+guess+vendored", "unshared+caching", "helpers", "unshared+gobuild"}

// "unshared+gobuild": every thread's restorer has a go/build-based package-name resolver of its own, rooted in a
// directory of its own, without a build context (so the library falls back on the process-wide build.Default)
// and with a FindPackage hook standing in for (*build.Context).Import: like go/build in module mode it looks the
// package up from the context's Dir when that is set and from the directory it is handed otherwise, and the same
// import path has another package name in every directory. The hook is a scheduling point.
func c16GobuildRes(thread int) resolver.RestorerResolver {
	return &gobuild.RestorerResolver{
		Dir: fmt.Sprintf("/work/mod%d", thread),
		FindPackage: func(ctxt *build.Context, importPath, fromDir string, mode build.ImportMode) (*build.Package, error) {
			vsched.Yield("harness.findPackage")
			dir := ctxt.Dir
			if dir == "" {
				dir = fromDir
			}
			name := importPath[strings.LastIndex(importPath, "/")+1:]
			if strings.Contains(importPath, "/") {
				name += "_" + dir[len(dir)-4:]
			}
			return &build.Package{Name: name}, nil
		},
	}
}

func c16RR(sc string, thread int, rr resolver.RestorerResolver) resolver.RestorerResolver {
	if sc == "unshared+gobuild" {
		return c16GobuildRes(thread)
	}
	return rr
}

// c16CachingRes is a stateful package-name resolver owned by one thread.
type c16CachingRes struct {
	inner resolver.RestorerResolver
	cache map[string]string
}

func (r *c16CachingRes) ResolvePackage(path string) (string, error) {
	vsched.Touch(&r.cache, false, "harness.cachingResolver.cache")
	if n, ok := r.cache[path]; ok {
		return n, nil
	}
	n, err := r.inner.ResolvePackage(path)
	if err == nil {
		vsched.Touch(&r.cache, true, "harness.cachingResolver.cache")
		r.cache[path] = n
	}
	return n, err
}

// the first two files bind the same local name (x) to different paths: a resolver that mixes up the
// per-file import tables of concurrently decorated files is caught by the sequential-result oracle
var c16ThreadFiles = []string{"@xa", "@xb", "multiblock", "typepos", "call", "commented"}

var c16VendoredFiles = []string{"@va", "@vb", "@vc"}

var c16Inline = map[string]string{
	"@va": "package a\n\nimport \"root/vendor/a.b/x\"\n\nvar v = x.T{F: x.K}\n",
	"@vb": "package a\n\nimport (\n\t\"fmt\"\n\n\t\"root/vendor/c.d/x\"\n)\n\nfunc f() {\n\tfmt.Println(x.V)\n}\n",
	"@vc": "package a\n\nimport y \"vendor/e.f/y-go\"\n\nvar _ = y.F(y.V)\n",
	// both files have qualified identifiers with a comment and a line break behind the dot (decorations of three ast
	// nodes are merged into one identifier there)
	"@xa": "package a\n\nimport (\n\t\"fmt\"\n\n\t\"a.b/x\"\n)\n\nfunc f() {\n\tfmt. // after the dot\n\t\tPrintln(x.V, x.K)\n\tx.F()\n}\n",
	"@xb": "package a\n\nimport \"c.d/x\"\n\nvar v = x.T{F: x.K}\n\nfunc g() x.T {\n\treturn x. /* b */ // c\n\t\t// d\n\t\tF(v)\n}\n",
}
var c16MapScenarios = []string{"imports-alias-collision", "imports-two-specs-one-alias", "newpackage-import-error", "imports-added-conflict", "imports-aliases-override", "imports-removed", "package-decorate-print", "package-decorate-print-multiline", "newpackage", "goast-roundtrip", "extras-bytes", "clone-package"}

func init() {
	core.Register(&core.Prop{
		ID:    "C16",
		Level: "model_checking",
		Rule: "controlled scheduler on instrumented sources (sync primitives replaced, accesses to package-level variables and to resolver state hooked, every range-over-map under explorer control): " +
			"2 (quick) / 3 (thorough) goroutines, each with its own Decorator and Restorer on a different file, sharing one goast resolver (lazily defaulted / WithResolver) and read-only package-name resolvers; all interleavings at the hooked operations with preemption bound 3; " +
			"every execution starts from the initial values of the library's package-level variables (registered by the instrumenter, restored before each run); oracle per schedule: no access pair unordered by happens-before (vector clocks over lock release/acquire), no deadlock, no panic, every thread's tree and bytes equal its sequential result; " +
			"sequentially: 8 import-management / package scenarios x every single (thorough: pair of) non-default map iteration order at any range-over-map, and repetition: identical output; " +
			"sequential call histories: every ordered pair (thorough: triple) of calls from a pool of 22 bodies (thread files, helpers, the map-order scenarios) made in one process without resetting package-level state, once with resolvers of their own and once sharing one goast resolver: the last call's tree and bytes equal those of the same call made first; " +
			"plus a free-running go build -race pass of the same thread bodies; state = distinct order of accesses to shared locations / distinct map-order vector; non-trivial = schedule with a preemption or non-default map order",
		Assumptions: []string{"only hooked operations are scheduling points; races on other memory are left to the free-running -race pass", "RWMutex is modelled as an exclusive lock"},
		NeedsInstr:  true,
		Units: func(tier string) []string {
			var u []string
			for _, s := range c16ThreadScenarios {
				u = append(u, "threads/"+s+"#0", "threads/"+s+"#1", "threads/"+s+"#2", "threads/"+s+"#3")
			}
			for _, s := range c16MapScenarios {
				u = append(u, "maporder/"+s)
			}
			u = append(u, "race-detector")
			for _, m := range c16HistoryModes {
				for i := 0; i < c16HistShards; i++ {
					u = append(u, fmt.Sprintf("history/%s#%d", m, i))
				}
			}
			return u
		},
		Run: runC16,
		Check: func(c core.Case) core.Outcome {
			var cs c16Case
			if err := json.Unmarshal(c, &cs); err != nil {
				panic(err)
			}
			switch cs.Kind {
			case "threads":
				c16Discover()
				var o core.Outcome
				explore.Replay(cs.Choices, func(ch *explore.Chooser) { o, _ = c16Threads(cs, ch) })
				return o
			case "maporder":
				var o core.Outcome
				explore.Replay(cs.Choices, func(ch *explore.Chooser) { o = c16MapOrder(cs, ch) })
				return o
			case "history":
				return c16History(cs)
			}
			return c16RacePass()
		},
	})
}

const c16Shards = 4

func runC16(ctx *core.Ctx, unit int) {
	vsched.ResetGlobals() // records the initial package-level state on its first call
	nt := len(c16ThreadScenarios) * c16Shards
	switch {
	case unit < nt:
		sc := c16ThreadScenarios[unit/c16Shards]
		threads, bound := 2, 3
		if ctx.Thorough() && !strings.Contains(sc, "+vendored") && !strings.HasPrefix(sc, "unshared") && sc != "helpers" {
			// three threads for the three scenarios that share a resolver (in the unshared ones a third thread only
			// multiplies interleavings of events that cannot conflict unless there is hidden shared state, which two
			// threads expose as well); the vendored variants repeat two of them with other
			// files, and the caching scenario's threads touch only their own caches (a third thread multiplies
			// interleavings of independent events without adding a conflict): those stay at two threads
			threads, bound = 3, 3
		}
		c16Discover()
		seenOrders := map[string]bool{}
		tree := &explore.Tree{Bound: bound, Shard: unit % c16Shards, NShards: c16Shards, Stop: ctx.Expired}
		tree.Explore(func(c *explore.Chooser) {
			cs := c16Case{Kind: "threads", Scenario: sc, Threads: threads}
			o, events := c16Threads(cs, c)
			if explore.SkipJudge() {
				return
			}
			cs.Choices = append([]int{}, c.Choices...)
			seenOrders[events] = true
			ctx.State(sc+"|"+events, c.Deviations() > 0)
			ctx.Eval(cs, o)
			if c.Deviations() == 2 {
				ctx.Sample(cs)
			}
			ctx.Max("scheduling_points_max", float64(len(c.Choices)))
		})
		ctx.R.Transitions += tree.Transitions
		ctx.Count("schedules:"+sc, tree.Executions)
		if tree.Cut {
			ctx.Cut("schedules of " + sc)
		}
	case unit < nt+len(c16MapScenarios):
		sc := c16MapScenarios[unit-nt]
		bound := 1
		if ctx.Thorough() {
			bound = 2
		}
		tree := &explore.Tree{Bound: bound, Stop: ctx.Expired}
		tree.Explore(func(c *explore.Chooser) {
			cs := c16Case{Kind: "maporder", Scenario: sc}
			o := c16MapOrder(cs, c)
			cs.Choices = append([]int{}, c.Choices...)
			ctx.State(fmt.Sprint(sc, cs.Choices), c.Deviations() > 0)
			ctx.Eval(cs, o)
			if c.Deviations() == 1 {
				ctx.Sample(cs)
			}
			ctx.Max("map_range_executions_max", float64(len(c.Choices)))
		})
		ctx.R.Transitions += tree.Transitions
		ctx.Count("map-order vectors:"+sc, tree.Executions)
		if tree.Cut {
			ctx.Cut("map orders of " + sc)
		}
	case unit == nt+len(c16MapScenarios):
		cs := c16Case{Kind: "race-detector", Scenario: "free-running"}
		ctx.CountState(true)
		ctx.Eval(cs, c16RacePass())
	default:
		h := unit - nt - len(c16MapScenarios) - 1
		mode, shard := c16HistoryModes[h/c16HistShards], h%c16HistShards
		bodies := c16HistoryBodies()
		depth := 2
		if ctx.Thorough() {
			depth = 3
		}
		n := 0
		var rec func(prefix []string)
		rec = func(prefix []string) {
			if len(prefix) >= 2 {
				n++
				if n%c16HistShards == shard {
					if ctx.Expired() {
						return
					}
					cs := c16Case{Kind: "history", Scenario: mode + ":" + strings.Join(prefix, ">")}
					ctx.State(cs.Scenario, true)
					ctx.R.Transitions += int64(len(prefix))
					ctx.Eval(cs, c16History(cs))
					if len(ctx.R.Samples) < 1 {
						ctx.Sample(cs)
					}
				}
			}
			if len(prefix) == depth {
				return
			}
			for _, b := range bodies {
				rec(append(append([]string{}, prefix...), b.name))
			}
		}
		rec(nil)
		ctx.Count("call histories:"+mode, int64(n))
		if ctx.Expired() {
			ctx.Cut("histories " + mode)
		}
	}
}

// ---- sequential call histories: the determinism clause over what one process did before
//
// Every ordered pair (thorough: triple) of calls from a pool of 20-odd bodies is executed in one
// process without resetting the library's package-level state in between; the last call's tree and
// bytes must equal those of the same call made first thing after a reset. Mode "fresh": every call
// has its own resolvers (only process-global state can connect them); mode "shared-goast": the calls
// share one syntax-based resolver, which the property allows.

const c16HistShards = 2

var c16HistoryModes = []string{"fresh", "shared-goast"}

type c16HB struct {
	name string
	run  func(g resolver.DecoratorResolver) string
}

func c16HistoryBodies() []c16HB {
	var out []c16HB
	file := func(name, src string) {
		out = append(out, c16HB{name, func(g resolver.DecoratorResolver) string {
			if g == nil {
				g = goast.New()
			}
			var r c16Result
			c16Body(src, g, guess.New(), &r)()
			return r.tree + "\n--\n" + r.out + r.err
		}})
	}
	for i := range c16ThreadFiles {
		file("file:"+c16ThreadFiles[i], c16Src(i, ""))
	}
	for i := range c16VendoredFiles {
		file("file:"+c16VendoredFiles[i], c16Src(i, "+vendored"))
	}
	out = append(out, c16HB{"helpers", func(resolver.DecoratorResolver) string {
		var r c16Result
		c16Body(c16Src(5, ""), nil, nil, &r)()
		return r.tree + "\n--\n" + r.out + r.err
	}})
	for _, sc := range c16MapScenarios {
		body := c16MapBody(sc)
		out = append(out, c16HB{"scenario:" + sc, func(resolver.DecoratorResolver) string { return body() }})
	}
	return out
}

func c16History(cs c16Case) core.Outcome {
	i := strings.Index(cs.Scenario, ":")
	mode, names := cs.Scenario[:i], strings.Split(cs.Scenario[i+1:], ">")
	bodies := map[string]c16HB{}
	for _, b := range c16HistoryBodies() {
		bodies[b.name] = b
	}
	last := bodies[names[len(names)-1]]
	var ref, got string
	vsched.ResetGlobals()
	if p := guard(func() { ref = last.run(nil) }); p != "" {
		return core.Outcome{Key: "engine:history-reference", Desc: p}
	}
	vsched.ResetGlobals()
	var shared resolver.DecoratorResolver
	if mode == "shared-goast" {
		shared = goast.New()
	}
	p := guard(func() {
		for _, n := range names[:len(names)-1] {
			bodies[n].run(shared)
		}
		got = last.run(shared)
	})
	vsched.ResetGlobals()
	if p != "" {
		return core.Outcome{Key: "panic:history:" + mode, Desc: "calls " + cs.Scenario + "\n" + p}
	}
	if got != ref {
		return core.Outcome{Key: "result-depends-on-earlier-calls:" + mode, Desc: "calls " + cs.Scenario + ": the last call's tree or bytes differ from what the same call yields as the first call of a process\n" + diffDesc(ref, got)}
	}
	return core.Outcome{OK: true}
}

func c16Resolvers(sc string) (shared func() resolver.DecoratorResolver, res resolver.RestorerResolver) {
	switch strings.TrimSuffix(sc, "+vendored") {
	case "goast.New+guess":
		g := goast.New()
		return func() resolver.DecoratorResolver { return g }, guess.New()
	case "goast.WithResolver(simple)+simple":
		g := goast.WithResolver(simple.New(stdNames))
		return func() resolver.DecoratorResolver { return g }, simple.New(stdNames)
	case "goast.New+guess.WithMap":
		g := goast.New()
		return func() resolver.DecoratorResolver { return g }, guess.WithMap(stdNames)
	case "helpers":
		return func() resolver.DecoratorResolver { return nil }, nil // decorator.Parse + decorator.Fprint (c16Body)
	case "unshared+caching", "unshared+gobuild":
		return func() resolver.DecoratorResolver { return goast.New() }, nil // restorer resolver made per thread (c16Body)
	default: // unshared
		return func() resolver.DecoratorResolver { return goast.New() }, guess.New()
	}
}

type c16Result struct {
	tree, out string
	err       string
}

func c16Body(src string, dr resolver.DecoratorResolver, rr resolver.RestorerResolver, res *c16Result) func() {
	if dr == nil {
		// the package-level helpers, no import management
		return func() {
			f, err := decorator.Parse(src)
			if err != nil {
				res.err = "decorate: " + err.Error()
				return
			}
			res.tree = snapshotNode(f)
			var buf bytes.Buffer
			if err := decorator.Fprint(&buf, f); err != nil {
				res.err = "restore: " + err.Error()
				return
			}
			res.out = buf.String()
		}
	}
	return func() {
		d := decorator.NewDecoratorWithImports(token.NewFileSet(), localPath, dr)
		f, err := d.Parse(src)
		if err != nil {
			res.err = "decorate: " + err.Error()
			return
		}
		res.tree = snapshotNode(f)
		var buf bytes.Buffer
		if rr == nil {
			rr = &c16CachingRes{inner: guess.New(), cache: map[string]string{}}
		}
		if err := decorator.NewRestorerWithImports(localPath, rr).Fprint(&buf, f); err != nil {
			res.err = "restore: " + err.Error()
			return
		}
		res.out = buf.String()
	}
}

func c16Src(i int, sc string) string {
	name := c16ThreadFiles[i%len(c16ThreadFiles)]
	if strings.HasSuffix(sc, "+vendored") {
		name = c16VendoredFiles[i%len(c16VendoredFiles)]
	}
	if s, ok := c16Inline[name]; ok {
		return s
	}
	t, _ := gen.Find(importTemplates(), name)
	return t.Src
}

var c16Discovered bool

// c16Discover runs every scenario sequentially once to learn which hooked locations are ever written;
// reads of the others are not scheduling points.
func c16Discover() {
	if c16Discovered {
		return
	}
	c16Discovered = true
	vsched.Discover = true
	for _, sc := range c16ThreadScenarios {
		mk, rr := c16Resolvers(sc)
		for i := 0; i < 3; i++ {
			var r c16Result
			vsched.ResetGlobals()
			vsched.Go(func(int, bool) int { return 0 }, c16Body(c16Src(i, sc), mk(), c16RR(sc, i, rr), &r))
		}
	}
	vsched.Discover = false
	for name := range vsched.Seen {
		if !vsched.Written[name] {
			vsched.ReadOnly[name] = true
		}
	}
}

func c16Threads(cs c16Case, c *explore.Chooser) (core.Outcome, string) {
	fail := func(key, f string, a ...interface{}) (core.Outcome, string) {
		return core.Outcome{Key: key + ":" + cs.Scenario, Desc: fmt.Sprintf("scenario %s, %d threads, schedule %v\n", cs.Scenario, cs.Threads, c.Choices) + fmt.Sprintf(f, a...)}, ""
	}
	// sequential reference, every body from the library's initial package-level state
	mkRef, rrRef := c16Resolvers(cs.Scenario)
	ref := make([]c16Result, cs.Threads)
	for i := range ref {
		vsched.ResetGlobals()
		// alone, but under the scheduler: goroutines the library starts by itself are threads too
		alone := vsched.Go(func(int, bool) int { return 0 }, c16Body(c16Src(i, cs.Scenario), mkRef(), c16RR(cs.Scenario, i, rrRef), &ref[i]))
		if len(alone.Races) > 0 {
			sort.Strings(alone.Races)
			return fail("data-race-within-one-call:"+raceName(alone.Races[0]), "thread %d's calls made alone: the library's own goroutines race (accesses unordered by happens-before): %s", i, strings.Join(alone.Races, "; "))
		}
		if alone.Dead != "" {
			return fail("deadlock", "thread %d alone: %s", i, alone.Dead)
		}
		for _, p := range alone.Panics() {
			if p != nil {
				return fail("panic", "thread %d alone panicked: %v", i, p)
			}
		}
		if ref[i].err != "" {
			return fail("engine:reference", "%s", ref[i].err)
		}
	}
	mk, rr := c16Resolvers(cs.Scenario)
	got := make([]c16Result, cs.Threads)
	var bodies []func()
	for i := range got {
		bodies = append(bodies, c16Body(c16Src(i, cs.Scenario), mk(), c16RR(cs.Scenario, i, rr), &got[i]))
	}
	vsched.ResetGlobals()
	run := vsched.Go(func(n int, free bool) int {
		if free {
			return c.ChooseFree(n)
		}
		return c.Choose(n)
	}, bodies...)
	events := strings.Join(run.Events, ";")
	if len(vsched.NewWrites) > 0 {
		return fail("engine:written-set-incomplete", "a location classified read-only was written: %v", vsched.NewWrites)
	}
	if run.Dead != "" {
		return fail("deadlock", "%s", run.Dead)
	}
	for i, p := range run.Panics() {
		if p != nil {
			return fail("panic", "thread %d panicked: %v", i, p)
		}
	}
	if len(run.Races) > 0 {
		sort.Strings(run.Races)
		return fail("data-race:"+raceName(run.Races[0]), "data race (accesses unordered by happens-before): %s\naccess order: %s", strings.Join(run.Races, "; "), events)
	}
	for i := range got {
		if got[i].err != "" {
			return fail("thread-error", "thread %d: %s", i, got[i].err)
		}
		if got[i].tree != ref[i].tree {
			return fail("result-differs-from-sequential", "thread %d: decorated tree differs from the tree the same call produces alone", i)
		}
		if got[i].out != ref[i].out {
			return fail("result-differs-from-sequential", "thread %d: printed bytes differ from the sequential result\n%s", i, diffDesc(ref[i].out, got[i].out))
		}
	}
	return core.Outcome{OK: true}, events
}

func raceName(r string) string {
	f := strings.Fields(r)
	for i, w := range f {
		if w == "of" && i+1 < len(f) {
			return f[i+1]
		}
	}
	return "?"
}

// ---- map orders

func c16MapBody(sc string) func() string {
	return func() string {
		switch sc {
		case "imports-added-conflict":
			return c16Restore(c07Case{Used: 0b01111, Shape: 0, OvPath: -1, LocalIs: -1})
		case "imports-aliases-override":
			return c16Restore(c07Case{Used: 0b11101, Shape: 6, OvPath: 1, Ov: "zz", LocalIs: -1})
		case "imports-alias-collision":
			// the override asks for an alias that another import of the source already uses
			return c16Restore(c07Case{Used: 0b01011, Shape: 6, OvPath: 1, Ov: "f", LocalIs: -1})
		case "imports-two-specs-one-alias":
			return c16RestoreSrc("import (\n\tq \"fmt\"\n\tq \"io\"\n)\n", 0b00011)
		case "imports-removed":
			return c16Restore(c07Case{Used: 0b00001, Shape: 7, OvPath: -1, LocalIs: -1})
		case "package-decorate-print", "package-decorate-print-multiline":
			fset := token.NewFileSet()
			files := map[string]*ast.File{}
			srcs := []string{"vars", "comments", "funcs"}
			if sc == "package-decorate-print-multiline" {
				// one file whose raw string and block comment span the line numbers on which the other
				// files have blank lines and one-element-per-line lists
				srcs = []string{"@multi", "@lines1", "@lines2"}
			}
			for i, name := range srcs {
				t, _ := gen.Find(gen.Templates(), name)
				switch name {
				case "@multi":
					t.Src = "package a\n\nvar s = `l3\nl4\nl5\nl6`\n\n/*\nl9\nl10\nl11\n*/\nvar t = 1\n"
				case "@lines1":
					t.Src = "package a\n\nvar u = []int{\n\t1,\n\t2,\n}\n\nvar (\n\tv = 1\n\n\tw = 2\n)\n"
				case "@lines2":
					t.Src = "package a\n\nfunc h() {\n\tx()\n\n\ty()\n}\n\nfunc k() {\n\tz(\n\t\t1,\n\t)\n}\n"
				}
				af, err := parser.ParseFile(fset, fmt.Sprintf("f%d.go", i), t.Src, parser.ParseComments)
				if err != nil {
					panic(err)
				}
				files[fmt.Sprintf("f%d.go", i)] = af
			}
			dn, err := decorator.NewDecorator(fset).DecorateNode(&ast.Package{Name: "a", Files: files})
			if err != nil {
				return "error: " + err.Error()
			}
			var names []string
			pkg := dn.(*dst.Package)
			for k := range pkg.Files {
				names = append(names, k)
			}
			sort.Strings(names)
			var b strings.Builder
			for _, k := range names {
				b.WriteString("== " + k + "\n" + mustPrint(pkg.Files[k]))
			}
			return b.String()
		case "newpackage":
			o := c18Package(c18Case{Mode: "package", Files: []string{"f2", "f4", "f8"}, Importer: true, Universe: true}, func(k, f string, a ...interface{}) core.Outcome {
				return core.Outcome{Key: k, Desc: fmt.Sprintf(f, a...)}
			})
			return fmt.Sprint(o.OK, o.Key)
		case "newpackage-import-error":
			o := c18Package(c18Case{Mode: "package", Files: []string{"f2", "f6", "f9"}, Importer: true, Universe: true}, func(k, f string, a ...interface{}) core.Outcome {
				return core.Outcome{Key: k, Desc: fmt.Sprintf(f, a...)}
			})
			return fmt.Sprint(o.OK, o.Key, o.Desc)
		case "goast-roundtrip":
			var r c16Result
			c16Body(c16Src(0, ""), goast.New(), guess.New(), &r)()
			return r.tree + r.out + r.err
		case "extras-bytes":
			t, _ := gen.Find(gen.Templates(), "ranges")
			f, err := decorator.Parse(t.Src)
			if err != nil {
				panic(err)
			}
			r := decorator.NewRestorer()
			r.Extras = true
			var buf bytes.Buffer
			if err := r.Fprint(&buf, f); err != nil {
				return "error: " + err.Error()
			}
			return buf.String()
		case "clone-package":
			f1, _ := decorator.Parse("package a\n\nvar x = 1\n")
			f2, _ := decorator.Parse("package a\n\n// c\nfunc f() {}\n")
			p := &dst.Package{Name: "a", Files: map[string]*dst.File{"x.go": f1, "y.go": f2}, Imports: map[string]*dst.Object{}}
			cl := dst.Clone(p).(*dst.Package)
			return mustPrint(cl.Files["x.go"]) + mustPrint(cl.Files["y.go"])
		}
		panic("unknown scenario " + sc)
	}
}

// c16RestoreSrc restores hand-made references to the used paths in a file with the given import block.
func c16RestoreSrc(imports string, used int) string {
	f, err := decorator.Parse("package a\n\n" + imports)
	if err != nil {
		return "error: " + err.Error()
	}
	for i, p := range c07Paths {
		if used&(1<<i) != 0 {
			f.Decls = append(f.Decls, &dst.GenDecl{Tok: token.VAR, Specs: []dst.Spec{&dst.ValueSpec{
				Names: []*dst.Ident{dst.NewIdent(fmt.Sprintf("v%d", i))}, Type: &dst.Ident{Name: fmt.Sprintf("T%d", i), Path: p}}}})
		}
	}
	var buf bytes.Buffer
	if err := decorator.NewRestorerWithImports("example.com/unrelated", simple.New(c07Names)).Fprint(&buf, f); err != nil {
		return "error: " + err.Error()
	}
	return buf.String()
}

func c16Restore(cs c07Case) string {
	f, _ := c07BuildFile(cs)
	fr := decorator.NewRestorerWithImports("example.com/unrelated", simple.New(c07Names)).FileRestorer()
	if cs.OvPath >= 0 {
		fr.Alias[c07Paths[cs.OvPath]] = cs.Ov
	}
	var buf bytes.Buffer
	if err := fr.Fprint(&buf, f); err != nil {
		return "error: " + err.Error()
	}
	return buf.String()
}

func c16MapOrder(cs c16Case, c *explore.Chooser) core.Outcome {
	body := c16MapBody(cs.Scenario)
	vsched.ResetGlobals()
	ref := body()   // default (sorted) order, scheduler inactive
	again := body() // without a reset: state kept between calls must not show
	fail := func(key, f string, a ...interface{}) core.Outcome {
		return core.Outcome{Key: key + ":" + cs.Scenario, Desc: fmt.Sprintf("scenario %s, map-order choices %v\n", cs.Scenario, c.Choices) + fmt.Sprintf(f, a...)}
	}
	if ref != again {
		return fail("repetition-differs", "two runs on equal inputs differ\n%s", diffDesc(ref, again))
	}
	var got string
	var pan string
	vsched.ResetGlobals()
	vsched.WithMapOrders(func(n int, free bool) int { return c.Choose(n) }, func() {
		pan = guard(func() { got = body() })
	})
	if pan != "" {
		return fail("panic", "%s", pan)
	}
	if got != ref {
		return fail("depends-on-map-order", "the result depends on a map iteration order\n%s", diffDesc(ref, got))
	}
	return core.Outcome{OK: true}
}

// ---- free-running pass under the Go race detector (separate binary, scheduler inactive)

func c16RacePass() core.Outcome {
	bin := os.Getenv("VERIF_RACE_BIN")
	if bin == "" {
		return core.Outcome{Key: "engine:no-race-binary", Desc: "VERIF_RACE_BIN not set"}
	}
	cmd := exec.Command(bin, "c16race")
	cmd.Env = append(os.Environ(), "GORACE=halt_on_error=1")
	out, err := cmd.CombinedOutput()
	if err != nil || bytes.Contains(out, []byte("DATA RACE")) {
		s := string(out)
		key := "race-detector"
		if i := strings.Index(s, "DATA RACE"); i >= 0 {
			// name the first dst frame
			for _, l := range strings.Split(s[i:], "\n") {
				if strings.Contains(l, "github.com/dave/dst") {
					key += ":" + strings.TrimSpace(strings.SplitN(strings.TrimSpace(l), "(", 2)[0])
					break
				}
			}
		}
		return core.Outcome{Key: key, Desc: "free-running execution under the Go race detector failed: " + fmt.Sprint(err) + "\n" + short(s, 3000)}
	}
	return core.Outcome{OK: true}
}

// C16RaceMain is the body of the race binary: the thread bodies, free-running on real goroutines.
func C16RaceMain() int {
	_ = stdNames
	for round := 0; round < 30; round++ {
		for _, sc := range c16ThreadScenarios {
			var srcs []string
			for i := 0; i < 8; i++ {
				srcs = append(srcs, c16Src(i, sc))
			}
			mk, rr := c16Resolvers(sc)
			vsched.ResetGlobals() // no goroutine of the previous round is alive
			done := make(chan c16Result, 8)
			for i := 0; i < 8; i++ {
				i := i
				go func() {
					var r c16Result
					c16Body(srcs[i], mk(), c16RR(sc, i, rr), &r)()
					done <- r
				}()
			}
			for i := 0; i < 8; i++ {
				if r := <-done; r.err != "" {
					fmt.Println("error:", r.err)
					return 1
				}
			}
		}
	}
	return 0
}

func init() { core.ExtraCommands["c16race"] = C16RaceMain }
