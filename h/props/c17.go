package props

import (
	"bytes"
	"encoding/json"
	"errors"
	"fmt"
	"go/ast"
	"go/parser"
	"go/token"
	"os"
	"path/filepath"
	"reflect"
	"sort"
	"strings"

	"github.com/dave/dst"
	"github.com/dave/dst/decorator"
	"github.com/dave/dst/decorator/resolver"
	"github.com/dave/dst/decorator/resolver/goast"
	"github.com/dave/dst/decorator/resolver/gotypes"
	"github.com/dave/dst/decorator/resolver/simple"

	"golang.org/x/tools/go/packages"

	"verif/core"
	"verif/explore"
	"verif/oracle"
)

// C17: resolver failures surface as errors and leave the tree reusable.

var errInjected = errors.New("injected resolver failure")

// the failure injected at an odd call index additionally wraps the library's own "package not found" sentinel (what
// the simple, gobuild and gopackages resolvers return): the identity of the error must not matter for how it surfaces
var errInjectedNotFound = fmt.Errorf("%w (%w)", errInjected, resolver.ErrPackageNotFound)

func (f *faultCtl) err() error {
	if f.calls%2 == 1 {
		return errInjectedNotFound
	}
	return errInjected
}

// faulty resolvers: every call asks the explorer whether to fail (one failure per attempt at most).
type faultCtl struct {
	c      *explore.Chooser
	failed bool
	calls  int
}

func (f *faultCtl) ask() bool {
	f.calls++
	if f.failed {
		return false
	}
	if f.c.Choose(2) == 1 {
		f.failed = true
		return true
	}
	return false
}

type faultyDec struct {
	inner resolver.DecoratorResolver
	ctl   *faultCtl
}

func (r faultyDec) ResolveIdent(file *ast.File, parent ast.Node, parentField string, id *ast.Ident) (string, error) {
	if r.ctl.ask() {
		return "", r.ctl.err()
	}
	return r.inner.ResolveIdent(file, parent, parentField, id)
}

// c17NaiveDec is an identifier resolver that needs no file (ParseDir decorates a whole package node):
// a selector on an identifier spelled like one of the standard world's packages is a qualified identifier.
type c17NaiveDec struct{}

func (c17NaiveDec) ResolveIdent(file *ast.File, parent ast.Node, parentField string, id *ast.Ident) (string, error) {
	if se, ok := parent.(*ast.SelectorExpr); ok && parentField == "Sel" {
		if x, ok := se.X.(*ast.Ident); ok {
			for p, n := range stdNames {
				if n == x.Name && !strings.Contains(p, "/") {
					return p, nil
				}
			}
		}
	}
	return "", nil
}

type faultyRes struct {
	inner resolver.RestorerResolver
	ctl   *faultCtl
}

func (r faultyRes) ResolvePackage(path string) (string, error) {
	if r.ctl.ask() {
		return "", r.ctl.err()
	}
	return r.inner.ResolvePackage(path)
}

// parse-goast-broken: Decorator.Parse of the template followed by a declaration with a syntax error the
// parser recovers from (a tree and a syntax error come back when nothing is injected)
var c17Modes = []string{"decorate-goast-inner", "decorate-goast-outer", "decorate-gotypes", "parse-goast", "restore", "restore-imports-removed", "restore-alias", "restore-file", "parse-goast-broken", "parsedir", "save"}

type c17Case struct {
	Template string `json:"template"`
	Mode     string `json:"mode"`
	Choices  []int  `json:"choices"`
}

func c17Templates() []string {
	var out []string
	for _, t := range importTemplates() {
		if t.Name != "cgo" {
			out = append(out, t.Name)
		}
	}
	return out
}

func init() {
	core.Register(&core.Prop{
		ID:    "C17",
		Level: "fault_enumeration",
		Rule: "fault-position enumeration (choice tree, failure = deviation): for every import-bearing template and 9 entry configurations (DecorateFile with goast failing in its inner package-name resolver / wrapped as a whole, gotypes, Decorator.Parse of the template and of the template followed by a recoverable syntax error; Package.SaveWithResolver on a real file; Restorer.Fprint with imports present / removed / alias overrides, RestoreFile), " +
			"every position in the resolver call sequence is failed, in histories fail@k1 -> retry, fail@k1 -> fail@k2 -> retry, and three (thorough: four) failures before the retry (fresh decorator/restorer, same input, shared syntax resolver instance); " +
			"oracle: error returned and errors.Is(injected), no panic, nothing written, no tree returned, input ast/dst snapshot unchanged, final retry equals the failure-free result; non-trivial = execution with at least one injected failure",
		Assumptions: []string{"the resolver call order inside the restorer is a map order: every call position of the order that occurred is failed, map orders themselves are explored under C16"},
		Units: func(tier string) []string {
			var u []string
			for _, t := range c17Templates() {
				for _, m := range c17Modes {
					u = append(u, t+"/"+m)
				}
			}
			return u
		},
		Run: func(ctx *core.Ctx, unit int) {
			ts := c17Templates()
			t, mode := ts[unit/len(c17Modes)], c17Modes[unit%len(c17Modes)]
			bound := 3
			if ctx.Thorough() {
				bound = 4
			}
			tree := &explore.Tree{Bound: bound, Stop: ctx.Expired}
			if mode == "parsedir" {
				// ParseDir decorates the packages of a directory in map order, which this (uninstrumented)
				// build does not control. As long as every run stops at its first failure the number of
				// resolver calls does not depend on that order; if it does, the explorer cannot replay
				// prefixes and this configuration is cut (the other nine still decide the property)
				defer func() {
					if r := recover(); r != nil {
						if strings.Contains(fmt.Sprint(r), "replay divergence") {
							ctx.Cut("parsedir: resolver call sequence not reproducible (package map order)")
							return
						}
						panic(r)
					}
				}()
			}
			tree.Explore(func(c *explore.Chooser) {
				cs := c17Case{Template: t, Mode: mode}
				o := c17Exec(cs, c)
				cs.Choices = append([]int{}, c.Choices...)
				ctx.State(fmt.Sprintf("%s|%s|%v", t, mode, cs.Choices), c.Deviations() > 0)
				ctx.Eval(cs, o)
				if c.Deviations() == 2 {
					ctx.Sample(cs)
				}
			})
			ctx.R.Transitions += tree.Transitions
			ctx.Max("resolver_calls_max", float64(tree.MaxPoints))
			if tree.Cut {
				ctx.Cut("fault tree")
			}
		},
		Check: func(c core.Case) core.Outcome {
			var cs c17Case
			if err := json.Unmarshal(c, &cs); err != nil {
				panic(err)
			}
			var o core.Outcome
			explore.Replay(cs.Choices, func(ch *explore.Chooser) { o = c17Exec(cs, ch) })
			return o
		},
	})
}

func astSnapshot(n ast.Node) string {
	var b strings.Builder
	seen := map[uintptr]bool{}
	var rec func(v reflect.Value)
	rec = func(v reflect.Value) {
		switch v.Kind() {
		case reflect.Ptr:
			if v.IsNil() {
				b.WriteString("nil;")
				return
			}
			if seen[v.Pointer()] {
				b.WriteString("^;")
				return
			}
			seen[v.Pointer()] = true
			rec(v.Elem())
		case reflect.Interface:
			if v.IsNil() {
				b.WriteString("nil;")
				return
			}
			rec(v.Elem())
		case reflect.Struct:
			b.WriteString(v.Type().Name() + "{")
			for i := 0; i < v.NumField(); i++ {
				rec(v.Field(i))
			}
			b.WriteString("}")
		case reflect.Slice:
			fmt.Fprintf(&b, "[%d:", v.Len())
			for i := 0; i < v.Len(); i++ {
				rec(v.Index(i))
			}
			b.WriteString("]")
		case reflect.Map:
			fmt.Fprintf(&b, "map%d;", v.Len())
		default:
			fmt.Fprintf(&b, "%v;", v.Interface())
		}
	}
	rec(reflect.ValueOf(n))
	return b.String()
}

// c17Exec runs attempts until one succeeds (at most 3); every attempt may suffer one injected failure.
func c17Exec(cs c17Case, c *explore.Chooser) core.Outcome {
	fail := func(key, f string, a ...interface{}) core.Outcome {
		return core.Outcome{Key: key + ":" + cs.Mode, Desc: fmt.Sprintf("template %s, mode %s, choices %v\n", cs.Template, cs.Mode, c.Choices) + fmt.Sprintf(f, a...)}
	}
	var src string
	for _, t := range importTemplates() {
		if t.Name == cs.Template {
			src = t.Src
		}
	}
	isDecorate := strings.HasPrefix(cs.Mode, "decorate") || strings.HasPrefix(cs.Mode, "parse")

	// failure-free reference
	type result struct {
		tree string // snapshot of the produced tree (decorate) or ""
		out  string // printed bytes
	}
	var attempt func(ctl *faultCtl, shared *goast.DecoratorResolver, in interface{}) (res result, err error, pan string, wrote int)
	var makeInput func() interface{}
	var inputSnap func(in interface{}) string

	if isDecorate {
		makeInput = func() interface{} {
			if cs.Mode == "decorate-gotypes" {
				chk, err := stdWorld.Check(localPath, map[string]string{"a.go": src})
				if err != nil {
					panic(err)
				}
				return chk
			}
			fset := token.NewFileSet()
			af, err := parser.ParseFile(fset, "a.go", src, parser.ParseComments)
			if err != nil {
				panic(err)
			}
			return [2]interface{}{fset, af}
		}
		inputSnap = func(in interface{}) string {
			switch x := in.(type) {
			case [2]interface{}:
				return astSnapshot(x[1].(*ast.File))
			default:
				return astSnapshot(in.(*oracle.Checked).Files[0])
			}
		}
		attempt = func(ctl *faultCtl, shared *goast.DecoratorResolver, in interface{}) (res result, err error, pan string, wrote int) {
			var df *dst.File
			pan = guard(func() {
				switch cs.Mode {
				case "decorate-gotypes":
					chk := in.(*oracle.Checked)
					d := decorator.NewDecoratorWithImports(chk.Fset, localPath, faultyDec{gotypes.New(chk.Info.Uses), ctl})
					df, err = d.DecorateFile(chk.Files[0])
				case "decorate-goast-outer":
					x := in.([2]interface{})
					d := decorator.NewDecoratorWithImports(x[0].(*token.FileSet), localPath, faultyDec{shared, ctl})
					df, err = d.DecorateFile(x[1].(*ast.File))
				case "decorate-goast-inner":
					x := in.([2]interface{})
					shared.RestorerResolver = faultyRes{simple.New(stdNames), ctl}
					d := decorator.NewDecoratorWithImports(x[0].(*token.FileSet), localPath, shared)
					df, err = d.DecorateFile(x[1].(*ast.File))
				case "parse-goast":
					d := decorator.NewDecoratorWithImports(token.NewFileSet(), localPath, faultyDec{goast.WithResolver(simple.New(stdNames)), ctl})
					df, err = d.Parse(src)
				case "parsedir":
					// a directory holding the template (package a) and an external test package (a_test)
					dir, derr := scratchDir("c17dir")
					if derr != nil {
						panic(derr)
					}
					defer os.RemoveAll(dir)
					os.WriteFile(filepath.Join(dir, "a.go"), []byte(src), 0o644)
					os.WriteFile(filepath.Join(dir, "a_test.go"), []byte("package a_test\n\nimport \"fmt\"\n\nfunc t() {\n\tfmt.Println(1)\n}\n"), 0o644)
					d := decorator.NewDecoratorWithImports(token.NewFileSet(), localPath, faultyDec{c17NaiveDec{}, ctl})
					var pkgs map[string]*dst.Package
					pkgs, err = d.ParseDir(dir, nil, 0)
					if err != nil && len(pkgs) > 0 {
						wrote = 1 // packages came back together with the error
					}
					if err == nil {
						var names []string
						for n := range pkgs {
							names = append(names, n)
						}
						sort.Strings(names)
						for _, n := range names {
							var fnames []string
							for fn := range pkgs[n].Files {
								fnames = append(fnames, fn)
							}
							sort.Strings(fnames)
							for _, fn := range fnames {
								res.tree += n + "/" + filepath.Base(fn) + ":" + snapshotNode(pkgs[n].Files[fn]) + "\n"
							}
						}
					}
					return
				case "parse-goast-broken":
					d := decorator.NewDecoratorWithImports(token.NewFileSet(), localPath, faultyDec{goast.WithResolver(simple.New(stdNames)), ctl})
					df, err = d.Parse(src + "\nfunc broken( {\n")
				}
			})
			if cs.Mode == "parse-goast-broken" && pan == "" && err != nil && !errors.Is(err, errInjected) && df != nil {
				// nothing was injected: the syntax error next to a tree is the regular result of this mode
				res.tree = snapshotNode(df)
				res.out = "syntax error reported: " + err.Error()
				return res, nil, "", 0
			}
			if pan == "" && err == nil && df != nil {
				res.tree = snapshotNode(df)
				r := decorator.NewRestorerWithImports(localPath, simple.New(stdNames))
				var buf bytes.Buffer
				if pp := guard(func() {
					if e := r.Fprint(&buf, df); e != nil {
						err = fmt.Errorf("printing the decorated tree: %w", e)
					}
				}); pp != "" {
					// a tree came back without an error but cannot even be printed
					res.tree += "|unprintable: " + pp
				}
				res.out = buf.String()
			} else if df != nil && err != nil && cs.Mode != "parse-goast" && cs.Mode != "parse-goast-broken" {
				wrote = 1 // a tree came back together with an error
			}
			return
		}
	} else {
		makeInput = func() interface{} {
			fset := token.NewFileSet()
			d := decorator.NewDecoratorWithImports(fset, localPath, goast.WithResolver(simple.New(stdNames)))
			df, err := d.Parse(src)
			if err != nil {
				panic(err)
			}
			if cs.Mode == "restore-imports-removed" {
				var decls []dst.Decl
				for _, dcl := range df.Decls {
					if gd, ok := dcl.(*dst.GenDecl); ok && gd.Tok == token.IMPORT {
						continue
					}
					decls = append(decls, dcl)
				}
				df.Decls = decls
			}
			return df
		}
		inputSnap = func(in interface{}) string { return snapshotNode(in.(*dst.File)) }
		attempt = func(ctl *faultCtl, _ *goast.DecoratorResolver, in interface{}) (res result, err error, pan string, wrote int) {
			// the restorer mutates the import block of its input on success, so every attempt works on its
			// own clone and the original is compared; the clone is what "input" means for this attempt
			df := dst.Clone(in.(*dst.File)).(*dst.File)
			before := snapshotNode(df)
			r := decorator.NewRestorerWithImports(localPath, faultyRes{simple.New(stdNames), ctl})
			var buf bytes.Buffer
			pan = guard(func() {
				switch cs.Mode {
				case "restore-alias":
					fr := r.FileRestorer()
					fr.Alias["fmt"] = "f2"
					fr.Alias["os"] = "_"
					err = fr.Fprint(&buf, df)
				case "restore-file":
					var af *ast.File
					af, err = r.RestoreFile(df)
					if err != nil && af != nil {
						wrote = 1
					}
				case "save":
					// Package.SaveWithResolver on a real file: on failure the file on disk keeps its bytes
					dir, derr := scratchDir("c17save")
					if derr != nil {
						panic(derr)
					}
					defer os.RemoveAll(dir)
					name := filepath.Join(dir, "a.go")
					os.WriteFile(name, []byte(src), 0o644)
					pdec := decorator.NewDecoratorWithImports(token.NewFileSet(), localPath, goast.WithResolver(simple.New(stdNames)))
					pf, perr := pdec.ParseFile(name, nil, 0)
					if perr != nil {
						panic(perr)
					}
					// an edit, so that a successful save has something to write
					pf.Decs.Start.Prepend("// saved")
					pkg := &decorator.Package{Package: &packages.Package{PkgPath: localPath}, Dir: dir, Decorator: pdec, Imports: map[string]*decorator.Package{}, Syntax: []*dst.File{pf}}
					err = pkg.SaveWithResolver(faultyRes{simple.New(stdNames), ctl})
					onDisk, _ := os.ReadFile(name)
					if err != nil && string(onDisk) != src {
						wrote = 1 // the file was touched although the save failed
					}
					buf.WriteString(string(onDisk))
					if err != nil {
						buf.Reset()
					}
				default:
					err = r.Fprint(&buf, df)
				}
			})
			if err != nil || pan != "" {
				wrote += buf.Len()
				if after := snapshotNode(df); after != before {
					wrote += 1 << 20 // input tree modified although the call failed
				}
			}
			res.out = buf.String()
			return
		}
	}

	// reference run (no failures possible: a controller that never asks the explorer)
	refCtl := &faultCtl{c: &explore.Chooser{}, failed: true}
	refIn := makeInput()
	ref, rerr, rpan, _ := attempt(refCtl, goast.WithResolver(simple.New(stdNames)), refIn)
	if rerr != nil || rpan != "" {
		return fail("engine:reference-run-failed", "%v %s", rerr, rpan)
	}

	in := makeInput()
	snap := inputSnap(in)
	shared := goast.WithResolver(simple.New(stdNames))
	for n := 0; n < 6; n++ {
		ctl := &faultCtl{c: c}
		res, err, pan, wrote := attempt(ctl, shared, in)
		if pan != "" {
			return fail("panic", "attempt %d panicked: %s", n+1, pan)
		}
		if ctl.failed {
			if err == nil {
				return fail("failure-swallowed", "attempt %d: the resolver failed at call %d but the operation reported success", n+1, ctl.calls)
			}
			if !errors.Is(err, errInjected) {
				return fail("error-not-wrapped", "attempt %d: returned error %q does not wrap the resolver's error", n+1, err)
			}
			if wrote >= 1<<20 {
				return fail("input-modified-on-failure", "attempt %d: the input tree was modified although the call failed", n+1)
			}
			if wrote > 0 {
				return fail("output-on-failure", "attempt %d: output or a tree was produced although the call failed", n+1)
			}
			if s := inputSnap(in); s != snap {
				return fail("input-modified-on-failure", "attempt %d: the input tree changed", n+1)
			}
			continue
		}
		if err != nil {
			return fail("spurious-error", "attempt %d: no failure injected but error %v", n+1, err)
		}
		if res.tree != ref.tree || res.out != ref.out {
			return fail("retry-differs-from-clean-run", "attempt %d after %d failures: result differs from the failure-free result\n%s", n+1, n, diffDesc(ref.out, res.out))
		}
		return core.Outcome{OK: true}
	}
	return core.Outcome{OK: true} // more failures in a row than the bound allows cannot happen
}
