package props

import (
	"encoding/json"
	"errors"
	"fmt"
	"go/ast"
	"go/parser"
	"go/scanner"
	"go/token"
	"reflect"
	"sort"
	"strings"

	"github.com/dave/dst"
	"github.com/dave/dst/decorator"

	"verif/core"
	"verif/gen"
)

// C18: object and scope graphs survive decoration and optional restoration.

var c18Templates = []struct{ Name, Src string }{
	{"recursive-func", "package p\n\nfunc f(n int) int {\n\tif n == 0 {\n\t\treturn 0\n\t}\n\treturn f(n - 1)\n}\n"},
	{"recursive-type", "package p\n\ntype T struct {\n\tnext *T\n\tm    map[string]T\n}\n"},
	{"mutual", "package p\n\nfunc a() { b() }\n\nfunc b() { a() }\n\ntype X struct{ y *Y }\n\ntype Y struct{ x *X }\n"},
	{"forward", "package p\n\nvar v = w + c\n\nvar w = 1\n\nconst c = 2\n"},
	{"labels", "package p\n\nfunc f() {\nL:\n\tfor {\n\t\tbreak L\n\t}\n\tgoto M\nM:\n}\n"},
	{"typeswitch", "package p\n\nfunc f(i interface{}) {\n\tswitch x := i.(type) {\n\tcase int:\n\t\t_ = x\n\tdefault:\n\t\t_ = x\n\t}\n}\n"},
	{"range", "package p\n\nfunc f(m map[int]int) {\n\tfor k, v := range m {\n\t\t_, _ = k, v\n\t}\n\tfor i := range m {\n\t\t_ = i\n\t}\n}\n"},
	{"iota", "package p\n\nconst (\n\ta = iota\n\tb\n\tc, d = iota, iota\n)\n\nconst e = 5\n"},
	{"typeparams", "package p\n\nfunc F[T any, U comparable](t T, u U) T {\n\tvar z T\n\t_ = u\n\treturn z\n}\n\ntype G[P any] struct{ p P }\n\nfunc (g G[P]) M() P { return g.p }\n"},
	{"receivers", "package p\n\ntype T int\n\nfunc (t T) A() T { return t }\n\nfunc (t *T) B() { *t = 1 }\n"},
	{"closures", "package p\n\nfunc f() func() int {\n\tx := 1\n\treturn func() int {\n\t\ty := x\n\t\treturn func() int { return x + y }()\n\t}\n}\n"},
	{"select", "package p\n\nfunc f(c chan int) {\n\tselect {\n\tcase v, ok := <-c:\n\t\t_, _ = v, ok\n\tcase c <- 1:\n\t}\n}\n"},
	{"shadow", "package p\n\nvar x = 1\n\nfunc f(x int) int {\n\t{\n\t\tx := x\n\t\t_ = x\n\t}\n\tif x := x; x > 0 {\n\t\treturn x\n\t}\n\treturn x\n}\n"},
	{"fields", "package p\n\ntype S struct {\n\tA, B int\n\tC    func(a int) (r int)\n}\n\nvar s = S{A: 1}\n\nvar t = s.A\n"},
	{"unresolved", "package p\n\nimport \"fmt\"\n\nvar v = fmt.Sprint(other, int(1), nil)\n"},
}

var c18Pool = []struct{ Name, Src string }{
	{"f1", "package p\n\nvar A = B + undefinedX\n"},
	{"f2", "package p\n\nvar B = len(s)\n\nvar s string\n"},
	{"f3", "package p\n\nfunc A() {}\n"},
	{"f4", "package p\n\nimport \"fmt\"\n\nfunc F() { fmt.Println(A, C) }\n"},
	{"f5", "package p\n\nimport . \"lib\"\n\nvar D = LibA\n"},
	{"f6", "package p\n\nimport l \"lib\"\n\nimport \"missing\"\n\nvar E = l.LibA\n"},
	{"f7", "package q\n\nvar Q = 1\n"},
	{"f8", "package p\n\ntype T struct{ next *T }\n\nfunc (t *T) M() *T { return t.next }\n"},
	{"f9", "package p\n\nconst (\n\tc0 = iota\n\tc1\n)\n\nvar int = 3\n"},
	{"f10", "package p\n\nimport fmt \"lib\"\n\nvar G = fmt.LibA + LibB\n"},
	// import paths written as a raw string and with an escape sequence
	{"f11", "package p\n\nimport `lib`\n\nimport f2 \"\\x66mt\"\n\nvar H = lib.LibB + f2.Sprint()\n"},
	// two imports of one file bound to the same name: the first one stays in the file scope
	{"f12", "package p\n\nimport q \"lib\"\n\nimport q \"other\"\n\nvar I = q.LibA\n"},
}

// c18CorpusTemplates: the canonical and the non-canonical corpus (sources that parse without errors).
func c18CorpusTemplates() []gen.Template {
	return append(append([]gen.Template{}, gen.Templates()...), gen.Load("noncanonical.txt")...)
}

type c18Case struct {
	Mode     string   `json:"mode"` // "graph" | "package"
	Template string   `json:"template,omitempty"`
	Files    []string `json:"files,omitempty"`
	Importer bool     `json:"importer,omitempty"`
	Universe bool     `json:"universe,omitempty"`
}

func init() {
	core.Register(&core.Prop{
		ID:    "C18",
		Level: "model_checking",
		Rule: "graph part: 15 object-rich sources (recursion, mutual recursion, forward references, labels, type-switch/range/select variables, iota groups, type parameters, receivers, closures, shadowing, unresolved names) plus every corpus template, parsed with object resolution: " +
			"the decorator's Objects/Scopes/Nodes maps must be a graph isomorphism (shared objects, kind, name, data, declaration link, scope nesting and membership), and restoring with Extras must rebuild an isomorphic graph; files resolved against each other decorated one at a time, and an isolated declaration, keep every declaration link; " +
			"package part: every non-empty subset of <=4 files of a 12-file pool (cross-file references, redeclarations, two imports of one file bound to one name, undeclared names, dot/renamed/failing imports, raw-string and escaped import paths, a mismatching package clause, a shadowed universe name) x importer {nil, map} x universe {nil, small scope}: " +
			"dst.NewPackage on the decorated files (Unresolved filled from the images) vs go/ast.NewPackage on the originals: same package scope, same error multiset (positions aside), same remaining unresolved names and same resolutions; state = source / (file set, importer, universe)",
		Assumptions:      []string{"go/ast.NewPackage and go/parser's object resolution of this toolchain are the reference"},
		CrashIsViolation: true,
		Units: func(tier string) []string {
			var u []string
			for _, t := range c18Templates {
				u = append(u, "graph/"+t.Name)
			}
			u = append(u, "graph/@corpus", "graph/@package", "graph/@crossfile")
			for i := range c18Pool {
				u = append(u, "package/first="+c18Pool[i].Name)
			}
			return u
		},
		Run: func(ctx *core.Ctx, unit int) {
			if unit < len(c18Templates) {
				cs := c18Case{Mode: "graph", Template: c18Templates[unit].Name}
				ctx.State(cs.Template, true)
				ctx.R.Transitions++
				ctx.Eval(cs, c18Check(cs))
				ctx.Sample(cs)
				return
			}
			if unit == len(c18Templates) {
				for _, t := range c18CorpusTemplates() {
					cs := c18Case{Mode: "graph", Template: "@" + t.Name}
					ctx.State(cs.Template, true)
					ctx.R.Transitions++
					ctx.Eval(cs, c18Check(cs))
				}
				return
			}
			if unit == len(c18Templates)+1 {
				for _, uni := range []bool{false, true} {
					cs := c18Case{Mode: "pkggraph", Universe: uni}
					ctx.State(fmt.Sprint("pkggraph", uni), true)
					ctx.R.Transitions++
					ctx.Eval(cs, c18Check(cs))
				}
				return
			}
			if unit == len(c18Templates)+2 {
				for _, mode := range []string{"files-one-at-a-time", "isolated-declaration"} {
					cs := c18Case{Mode: "crossfile", Template: mode}
					ctx.State("crossfile|"+mode, true)
					ctx.R.Transitions++
					ctx.Eval(cs, c18Check(cs))
				}
				return
			}
			first := unit - len(c18Templates) - 3
			var sets [][]string
			sets = append(sets, []string{c18Pool[first].Name})
			for j := first + 1; j < len(c18Pool); j++ {
				sets = append(sets, []string{c18Pool[first].Name, c18Pool[j].Name})
				for k := j + 1; k < len(c18Pool); k++ {
					sets = append(sets, []string{c18Pool[first].Name, c18Pool[j].Name, c18Pool[k].Name})
				}
			}
			{
				for j := first + 1; j < len(c18Pool); j++ {
					for k := j + 1; k < len(c18Pool); k++ {
						for l := k + 1; l < len(c18Pool); l++ {
							sets = append(sets, []string{c18Pool[first].Name, c18Pool[j].Name, c18Pool[k].Name, c18Pool[l].Name})
						}
					}
				}
			}
			for _, fs := range sets {
				for _, imp := range []bool{false, true} {
					for _, uni := range []bool{false, true} {
						cs := c18Case{Mode: "package", Files: fs, Importer: imp, Universe: uni}
						ctx.State(fmt.Sprint(fs, imp, uni), true)
						ctx.R.Transitions++
						ctx.Eval(cs, c18Check(cs))
						if len(fs) == 3 && imp && uni {
							ctx.Sample(cs)
						}
					}
				}
			}
		},
		Check: func(c core.Case) core.Outcome {
			var cs c18Case
			if err := json.Unmarshal(c, &cs); err != nil {
				panic(err)
			}
			return c18Check(cs)
		},
	})
}

func c18Check(cs c18Case) core.Outcome {
	fail := func(key, f string, a ...interface{}) core.Outcome {
		b, _ := json.Marshal(cs)
		return core.Outcome{Key: key, Desc: string(b) + "\n" + fmt.Sprintf(f, a...)}
	}
	if cs.Mode == "package" {
		return c18Package(cs, fail)
	}
	if cs.Mode == "pkggraph" {
		return c18PkgGraph(cs, fail)
	}
	if cs.Mode == "crossfile" {
		return c18CrossFile(cs, fail)
	}
	var src string
	if strings.HasPrefix(cs.Template, "@") {
		for _, t := range c18CorpusTemplates() {
			if "@"+t.Name == cs.Template {
				src = t.Src
			}
		}
	} else {
		for _, t := range c18Templates {
			if t.Name == cs.Template {
				src = t.Src
			}
		}
	}
	fset := token.NewFileSet()
	af, err := parser.ParseFile(fset, "a.go", src, parser.ParseComments)
	if err != nil {
		panic(err)
	}
	dec := decorator.NewDecorator(fset)
	var df *dst.File
	if p := guard(func() { df, err = dec.DecorateFile(af) }); p != "" {
		return fail("decorate-panic", "%s", p)
	}
	if err != nil {
		return fail("decorate-error", "%v", err)
	}
	// forward: ast -> dst
	g := &graphIso{
		nodeImg:  func(n interface{}) (interface{}, bool) { d, ok := dec.Dst.Nodes[n.(ast.Node)]; return d, ok },
		objImg:   func(o interface{}) (interface{}, bool) { d, ok := dec.Dst.Objects[o.(*ast.Object)]; return d, ok },
		scopeImg: func(s interface{}) (interface{}, bool) { d, ok := dec.Dst.Scopes[s.(*ast.Scope)]; return d, ok },
	}
	if k, d := g.checkFile(af, df); k != "" {
		return fail("decorate:"+k, "decorator: %s", d)
	}
	// restore with extras: dst -> ast'
	res := decorator.NewRestorer()
	res.Extras = true
	var rf *ast.File
	if p := guard(func() { rf, err = res.RestoreFile(df) }); p != "" {
		return fail("restore-panic", "%s", p)
	}
	if err != nil {
		return fail("restore-error", "%v", err)
	}
	g2 := &graphIso{
		nodeImg:  func(n interface{}) (interface{}, bool) { d, ok := res.Ast.Nodes[n.(dst.Node)]; return d, ok },
		objImg:   func(o interface{}) (interface{}, bool) { d, ok := res.Ast.Objects[o.(*dst.Object)]; return d, ok },
		scopeImg: func(s interface{}) (interface{}, bool) { d, ok := res.Ast.Scopes[s.(*dst.Scope)]; return d, ok },
	}
	if k, d := g2.checkFile(df, rf); k != "" {
		return fail("restore:"+k, "restorer (Extras): %s", d)
	}
	return core.Outcome{OK: true}
}

// graphIso checks that the images of identifiers, objects and scopes form an isomorphic graph. It is
// written against reflection so that it works in both directions (ast->dst and dst->ast).
type graphIso struct {
	nodeImg, objImg, scopeImg func(interface{}) (interface{}, bool)
	seenObj                   map[interface{}]bool
	seenScope                 map[interface{}]bool
	objBack                   map[interface{}]interface{}
}

func isNilPtr(x interface{}) bool {
	if x == nil {
		return true
	}
	v := reflect.ValueOf(x)
	return v.Kind() == reflect.Ptr && v.IsNil()
}

func field(x interface{}, name string) interface{} {
	return reflect.ValueOf(x).Elem().FieldByName(name).Interface()
}

// identsOf lists the identifiers of a file (ast or dst) in traversal order.
func identsOf(file interface{}) []interface{} {
	var out []interface{}
	switch f := file.(type) {
	case *ast.File:
		ast.Inspect(f, func(n ast.Node) bool {
			if id, ok := n.(*ast.Ident); ok {
				out = append(out, id)
			}
			return true
		})
	case *dst.File:
		dst.Inspect(f, func(n dst.Node) bool {
			if id, ok := n.(*dst.Ident); ok {
				out = append(out, id)
			}
			return true
		})
	}
	return out
}

func (g *graphIso) checkFile(from, to interface{}) (key, desc string) {
	g.seenObj, g.seenScope, g.objBack = map[interface{}]bool{}, map[interface{}]bool{}, map[interface{}]interface{}{}
	src := identsOf(from)
	dstIds := identsOf(to)
	if len(src) != len(dstIds) {
		return "ident-count", fmt.Sprintf("%d identifiers on one side, %d on the other", len(src), len(dstIds))
	}
	for i, id := range src {
		img, ok := g.nodeImg(id)
		if !ok || img != dstIds[i] {
			return "ident-image", fmt.Sprintf("identifier %v does not map to the %d-th identifier of the other tree", field(id, "Name"), i)
		}
		o := field(id, "Obj")
		o2 := field(img, "Obj")
		if isNilPtr(o) != isNilPtr(o2) {
			return "object-link-nilness:" + fmt.Sprint(field(id, "Name")), fmt.Sprintf("identifier %v: object link nil=%v, image's nil=%v", field(id, "Name"), isNilPtr(o), isNilPtr(o2))
		}
		if isNilPtr(o) {
			continue
		}
		oi, ok := g.objImg(o)
		if !ok {
			return "object-unmapped", fmt.Sprintf("object %v is not in the object map", field(o, "Name"))
		}
		if oi != o2 {
			return "object-sharing", fmt.Sprintf("identifier %v: its image is linked to a different object than the image of its object (sharing not preserved)", field(id, "Name"))
		}
		if k, d := g.checkObject(o); k != "" {
			return k, d
		}
	}
	// file scope
	s, s2 := field(from, "Scope"), field(to, "Scope")
	if isNilPtr(s) != isNilPtr(s2) {
		return "file-scope-nilness", "File.Scope nil on one side only"
	}
	if !isNilPtr(s) {
		si, ok := g.scopeImg(s)
		if !ok || si != s2 {
			return "file-scope-image", "File.Scope is not the image of the original file scope"
		}
		if k, d := g.checkScope(s); k != "" {
			return k, d
		}
	}
	return "", ""
}

func (g *graphIso) checkObject(o interface{}) (key, desc string) {
	if g.seenObj[o] {
		return "", ""
	}
	g.seenObj[o] = true
	oi, ok := g.objImg(o)
	if !ok {
		return "object-unmapped", fmt.Sprintf("object %v is not in the object map", field(o, "Name"))
	}
	if prev, dup := g.objBack[oi]; dup && prev != o {
		return "object-map-not-injective", fmt.Sprintf("two objects map to one (%v)", field(o, "Name"))
	}
	g.objBack[oi] = o
	name := fmt.Sprint(field(o, "Name"))
	if fmt.Sprint(field(oi, "Name")) != name {
		return "object-name", fmt.Sprintf("object %s maps to an object named %v", name, field(oi, "Name"))
	}
	if fmt.Sprint(field(o, "Kind")) != fmt.Sprint(field(oi, "Kind")) {
		return "object-kind", fmt.Sprintf("object %s: kind %v vs %v", name, field(o, "Kind"), field(oi, "Kind"))
	}
	for _, fld := range []string{"Decl", "Data"} {
		a, b := field(o, fld), field(oi, fld)
		if isNilPtr(a) != isNilPtr(b) {
			return "object-" + strings.ToLower(fld) + "-nilness", fmt.Sprintf("object %s: %s nil on one side only", name, fld)
		}
		if isNilPtr(a) {
			continue
		}
		switch x := a.(type) {
		case int:
			if b != interface{}(x) {
				return "object-data", fmt.Sprintf("object %s: Data %v vs %v", name, a, b)
			}
		case *ast.Scope, *dst.Scope:
			si, ok := g.scopeImg(a)
			if !ok || si != b {
				return "object-" + strings.ToLower(fld) + "-scope", fmt.Sprintf("object %s: %s scope is not the image of the original scope", name, fld)
			}
			if k, d := g.checkScope(a); k != "" {
				return k, d
			}
		default:
			ni, ok := g.nodeImg(a)
			if !ok || ni != b {
				return "object-" + strings.ToLower(fld) + "-link", fmt.Sprintf("object %s: %s (%T) is not the counterpart of the original declaring node (%T)", name, fld, b, a)
			}
		}
	}
	return "", ""
}

func (g *graphIso) checkScope(s interface{}) (key, desc string) {
	if g.seenScope[s] {
		return "", ""
	}
	g.seenScope[s] = true
	si, ok := g.scopeImg(s)
	if !ok {
		return "scope-unmapped", "scope is not in the scope map"
	}
	o, o2 := field(s, "Outer"), field(si, "Outer")
	if isNilPtr(o) != isNilPtr(o2) {
		return "scope-outer-nilness", "Outer nil on one side only"
	}
	if !isNilPtr(o) {
		oi, ok := g.scopeImg(o)
		if !ok || oi != o2 {
			return "scope-outer", "Outer of the image is not the image of Outer"
		}
		if k, d := g.checkScope(o); k != "" {
			return k, d
		}
	}
	m, m2 := reflect.ValueOf(field(s, "Objects")), reflect.ValueOf(field(si, "Objects"))
	if m.Len() != m2.Len() {
		return "scope-membership", fmt.Sprintf("scope has %d objects, its image %d", m.Len(), m2.Len())
	}
	keys := m.MapKeys()
	sort.Slice(keys, func(i, j int) bool { return keys[i].String() < keys[j].String() })
	for _, k := range keys {
		v2 := m2.MapIndex(k)
		if !v2.IsValid() {
			return "scope-membership", fmt.Sprintf("scope member %s missing in the image", k)
		}
		oi, ok := g.objImg(m.MapIndex(k).Interface())
		if !ok || oi != v2.Interface() {
			return "scope-member-image", fmt.Sprintf("scope member %s of the image is not the image of the member", k)
		}
		if kk, d := g.checkObject(m.MapIndex(k).Interface()); kk != "" {
			return kk, d
		}
	}
	return "", ""
}

// ---- NewPackage differential

func c18AstImporter(imports map[string]*ast.Object, path string) (*ast.Object, error) {
	if o, ok := imports[path]; ok {
		return o, nil
	}
	if path == "missing" {
		return nil, errors.New("not found")
	}
	sc := ast.NewScope(nil)
	names := []string{"Println"}
	if path == "lib" {
		names = []string{"LibA", "LibB"}
	}
	for _, n := range names {
		sc.Insert(ast.NewObj(ast.Var, n))
	}
	pkg := ast.NewObj(ast.Pkg, path)
	pkg.Data = sc
	imports[path] = pkg
	return pkg, nil
}

func c18DstImporter(imports map[string]*dst.Object, path string) (*dst.Object, error) {
	if o, ok := imports[path]; ok {
		return o, nil
	}
	if path == "missing" {
		return nil, errors.New("not found")
	}
	sc := dst.NewScope(nil)
	names := []string{"Println"}
	if path == "lib" {
		names = []string{"LibA", "LibB"}
	}
	for _, n := range names {
		sc.Insert(dst.NewObj(dst.Var, n))
	}
	pkg := dst.NewObj(dst.Pkg, path)
	pkg.Data = sc
	imports[path] = pkg
	return pkg, nil
}

var posPrefix = strings.NewReplacer()

func stripPos(msg string) string {
	// "file:line:col: text" -> "text"; drop go/ast's "previous declaration at ..." line
	if i := strings.Index(msg, "\n"); i >= 0 {
		msg = msg[:i]
	}
	return msg
}

func errMsgs(err error) []string {
	var out []string
	if err == nil {
		return nil
	}
	var el scanner.ErrorList
	if errors.As(err, &el) {
		for _, e := range el {
			out = append(out, stripPos(e.Msg))
		}
	} else {
		out = append(out, stripPos(err.Error()))
	}
	sort.Strings(out)
	return out
}

func c18Package(cs c18Case, fail func(string, string, ...interface{}) core.Outcome) core.Outcome {
	type side struct {
		name   string
		scope  []string
		errs   []string
		unres  []string
		resolv []string
	}
	build := func() (a, d side, err string) {
		fset := token.NewFileSet()
		afiles := map[string]*ast.File{}
		dfiles := map[string]*dst.File{}
		dec := decorator.NewDecorator(fset)
		var names []string
		for _, fn := range cs.Files {
			for _, p := range c18Pool {
				if p.Name == fn {
					af, perr := parser.ParseFile(fset, fn+".go", p.Src, parser.ParseComments)
					if perr != nil {
						panic(perr)
					}
					df, derr := dec.DecorateFile(af)
					if derr != nil {
						return a, d, derr.Error()
					}
					for _, u := range af.Unresolved {
						df.Unresolved = append(df.Unresolved, dec.Dst.Nodes[u].(*dst.Ident))
					}
					afiles[fn+".go"], dfiles[fn+".go"] = af, df
					names = append(names, fn+".go")
				}
			}
		}
		var auni *ast.Scope
		var duni *dst.Scope
		if cs.Universe {
			auni, duni = ast.NewScope(nil), dst.NewScope(nil)
			for _, n := range []string{"int", "string", "len", "nil"} {
				auni.Insert(ast.NewObj(ast.Typ, n))
				duni.Insert(dst.NewObj(dst.Typ, n))
			}
		}
		var aimp ast.Importer
		var dimp dst.Importer
		if cs.Importer {
			aimp, dimp = c18AstImporter, c18DstImporter
		}
		// remember which identifiers were unresolved before
		type pend struct {
			a *ast.Ident
			d *dst.Ident
		}
		var pending []pend
		for _, n := range names {
			for i, u := range afiles[n].Unresolved {
				pending = append(pending, pend{u, dfiles[n].Unresolved[i]})
			}
		}
		apkg, aerr := ast.NewPackage(fset, afiles, aimp, auni)
		var dpkg *dst.Package
		var derr error
		if p := guard(func() { dpkg, derr = dst.NewPackage(fset, dfiles, dimp, duni) }); p != "" {
			return a, d, "dst.NewPackage panicked: " + p
		}
		a.name, d.name = apkg.Name, dpkg.Name
		for k, o := range apkg.Scope.Objects {
			a.scope = append(a.scope, fmt.Sprintf("%s:%v", k, o.Kind))
		}
		for k, o := range dpkg.Scope.Objects {
			d.scope = append(d.scope, fmt.Sprintf("%s:%v", k, o.Kind))
		}
		sort.Strings(a.scope)
		sort.Strings(d.scope)
		a.errs, d.errs = errMsgs(aerr), errMsgs(derr)
		for _, n := range names {
			for _, u := range afiles[n].Unresolved {
				a.unres = append(a.unres, n+":"+u.Name)
			}
			for _, u := range dfiles[n].Unresolved {
				d.unres = append(d.unres, n+":"+u.Name)
			}
		}
		for _, p := range pending {
			ra, rd := "-", "-"
			// an import object is identified by the path of the spec that declares it (two specs of one file may
			// bind the same name; which one an identifier resolves to is not a map order)
			if p.a.Obj != nil {
				at := ""
				if is, ok := p.a.Obj.Decl.(*ast.ImportSpec); ok {
					at = "@" + is.Path.Value
				}
				ra = fmt.Sprintf("%s%s:%v", p.a.Obj.Name, at, p.a.Obj.Kind)
			}
			if p.d.Obj != nil {
				at := ""
				if is, ok := p.d.Obj.Decl.(*dst.ImportSpec); ok {
					at = "@" + is.Path.Value
				}
				rd = fmt.Sprintf("%s%s:%v", p.d.Obj.Name, at, p.d.Obj.Kind)
			}
			a.resolv = append(a.resolv, p.a.Name+"->"+ra)
			d.resolv = append(d.resolv, p.d.Name+"->"+rd)
		}
		return a, d, ""
	}
	// which package name wins when clauses differ is a map order on both sides: retry until they agree
	var a, d side
	for try := 0; try < 40; try++ {
		var e string
		a, d, e = build()
		if e != "" {
			return fail("package-build", "%s", e)
		}
		if a.name == d.name {
			break
		}
	}
	if a.name != d.name {
		return core.Outcome{OK: true}
	}
	// a name declared twice keeps whichever declaration its side happened to see first (file order is a
	// map order on both sides): for such names only the name is compared, not the kind
	redeclared := map[string]bool{}
	for _, e := range a.errs {
		if strings.HasSuffix(e, " redeclared in this block") {
			redeclared[strings.TrimSuffix(e, " redeclared in this block")] = true
		}
	}
	norm := func(l []string) []string {
		var out []string
		for _, e := range l {
			name := e
			if i := strings.LastIndex(e, ":"); i >= 0 {
				name = e[:i]
			}
			base := name
			if j := strings.LastIndex(base, "->"); j >= 0 {
				base = base[j+2:]
			}
			if redeclared[base] {
				e = name
			}
			out = append(out, e)
		}
		return out
	}
	a.scope, d.scope, a.resolv, d.resolv = norm(a.scope), norm(d.scope), norm(a.resolv), norm(d.resolv)
	cmp := func(what string, x, y []string) *core.Outcome {
		if strings.Join(x, "|") != strings.Join(y, "|") {
			o := fail("newpackage-"+what, "%s differ\n  go/ast: %v\n  dst:    %v", what, x, y)
			return &o
		}
		return nil
	}
	for _, c := range []struct {
		what string
		x, y []string
	}{{"scope", a.scope, d.scope}, {"errors", a.errs, d.errs}, {"unresolved", a.unres, d.unres}, {"resolutions", a.resolv, d.resolv}} {
		if o := cmp(c.what, c.x, c.y); o != nil {
			return *o
		}
	}
	return core.Outcome{OK: true}
}

// c18PkgGraph decorates an *ast.Package built by go/ast.NewPackage (package scope nested in a universe
// scope, imports map with package objects) and checks the scope/object isomorphism from the package down.
func c18PkgGraph(cs c18Case, fail func(string, string, ...interface{}) core.Outcome) core.Outcome {
	fset := token.NewFileSet()
	files := map[string]*ast.File{}
	for _, fn := range []string{"f2", "f4", "f8"} {
		for _, p := range c18Pool {
			if p.Name == fn {
				af, err := parser.ParseFile(fset, fn+".go", p.Src, parser.ParseComments)
				if err != nil {
					panic(err)
				}
				files[fn+".go"] = af
			}
		}
	}
	var uni *ast.Scope
	if cs.Universe {
		uni = ast.NewScope(nil)
		for _, n := range []string{"int", "string", "len", "nil"} {
			uni.Insert(ast.NewObj(ast.Typ, n))
		}
	}
	apkg, _ := ast.NewPackage(fset, files, c18AstImporter, uni)
	dec := decorator.NewDecorator(fset)
	var dn dst.Node
	var err error
	if p := guard(func() { dn, err = dec.DecorateNode(apkg) }); p != "" {
		return fail("decorate-panic", "%s", p)
	}
	if err != nil {
		return fail("decorate-error", "%v", err)
	}
	dpkg := dn.(*dst.Package)
	g := &graphIso{
		nodeImg:  func(n interface{}) (interface{}, bool) { d, ok := dec.Dst.Nodes[n.(ast.Node)]; return d, ok },
		objImg:   func(o interface{}) (interface{}, bool) { d, ok := dec.Dst.Objects[o.(*ast.Object)]; return d, ok },
		scopeImg: func(s interface{}) (interface{}, bool) { d, ok := dec.Dst.Scopes[s.(*ast.Scope)]; return d, ok },
		seenObj:  map[interface{}]bool{}, seenScope: map[interface{}]bool{}, objBack: map[interface{}]interface{}{},
	}
	si, ok := g.scopeImg(apkg.Scope)
	if !ok || si != interface{}(dpkg.Scope) {
		return fail("decorate:package-scope-image", "Package.Scope is not the image of the original package scope")
	}
	if k, d := g.checkScope(apkg.Scope); k != "" {
		return fail("decorate:"+k, "package scope: %s", d)
	}
	if len(apkg.Imports) != len(dpkg.Imports) {
		return fail("decorate:package-imports", "Package.Imports has %d entries, the original %d", len(dpkg.Imports), len(apkg.Imports))
	}
	var keys []string
	for k := range apkg.Imports {
		keys = append(keys, k)
	}
	sort.Strings(keys)
	for _, k := range keys {
		oi, ok := g.objImg(apkg.Imports[k])
		if !ok || oi != interface{}(dpkg.Imports[k]) {
			return fail("decorate:package-imports", "Package.Imports[%s] is not the image of the original package object", k)
		}
		if kk, d := g.checkObject(apkg.Imports[k]); kk != "" {
			return fail("decorate:"+kk, "import %s: %s", k, d)
		}
	}
	for name, af := range apkg.Files {
		g2 := *g
		if kk, d := g2.checkFile(af, dpkg.Files[name]); kk != "" {
			return fail("decorate:"+kk, "file %s: %s", name, d)
		}
	}
	return core.Outcome{OK: true}
}

var c18Cross = []string{
	"package p\n\nfunc A() int { return B() }\n",
	"package p\n\nfunc B() int { return C() + len(T{}.s) }\n",
	"package p\n\nfunc C() int { return 1 }\n\ntype T struct{ s string }\n",
}

// c18CrossFile: objects whose declarations lie outside the node being decorated (other files of the
// package resolved by go/ast.NewPackage, or the rest of the file for an isolated declaration): every
// object reachable from the decorated identifiers must still have its declaration link.
func c18CrossFile(cs c18Case, fail func(string, string, ...interface{}) core.Outcome) core.Outcome {
	fset := token.NewFileSet()
	files := map[string]*ast.File{}
	var names []string
	src := c18Cross
	if cs.Template == "isolated-declaration" {
		src = []string{"package p\n\nfunc A() int { return B() }\n\nfunc B() int { return C() }\n\nfunc C() int { return 1 }\n"}
	}
	for i, s := range src {
		name := fmt.Sprintf("f%d.go", i)
		af, err := parser.ParseFile(fset, name, s, parser.ParseComments)
		if err != nil {
			panic(err)
		}
		files[name] = af
		names = append(names, name)
	}
	ast.NewPackage(fset, files, nil, nil) // resolves identifiers across the files
	dec := decorator.NewDecorator(fset)
	check := func(what string) *core.Outcome {
		// every object known to the decorator: kind, name and declaration link
		var objs []*ast.Object
		for o := range dec.Dst.Objects {
			objs = append(objs, o)
		}
		sort.Slice(objs, func(i, j int) bool { return objs[i].Name < objs[j].Name })
		for _, o := range objs {
			d := dec.Dst.Objects[o]
			if d.Name != o.Name || fmt.Sprint(d.Kind) != fmt.Sprint(o.Kind) {
				o := fail("crossfile-object", "%s: object %s maps to %s/%v", what, o.Name, d.Name, d.Kind)
				return &o
			}
			if an, ok := o.Decl.(ast.Node); ok {
				dn, mapped := dec.Dst.Nodes[an]
				if d.Decl == nil || !mapped || d.Decl != interface{}(dn) {
					o := fail("crossfile-decl-link:"+what, "%s: object %s has a declaration on the ast side (%T) but its dst counterpart has Decl %v", what, o.Name, an, d.Decl)
					return &o
				}
			}
		}
		return nil
	}
	if cs.Template == "isolated-declaration" {
		var err error
		if p := guard(func() { _, err = dec.DecorateNode(files[names[0]].Decls[0]) }); p != "" || err != nil {
			return fail("crossfile-decorate", "DecorateNode on an isolated declaration: %s %v", p, err)
		}
		if o := check("isolated declaration"); o != nil {
			return *o
		}
		return core.Outcome{OK: true}
	}
	for _, name := range names {
		var err error
		if p := guard(func() { _, err = dec.DecorateFile(files[name]) }); p != "" || err != nil {
			return fail("crossfile-decorate", "%s: %s %v", name, p, err)
		}
		if o := check("after decorating " + name); o != nil {
			return *o
		}
	}
	return core.Outcome{OK: true}
}
