package props

import (
	"bytes"
	"encoding/json"
	"fmt"
	"go/token"
	"reflect"
	"strings"

	"github.com/dave/dst"
	"github.com/dave/dst/decorator"
	"github.com/dave/dst/decorator/resolver/goast"
	"github.com/dave/dst/decorator/resolver/simple"

	"verif/core"
	"verif/explore"
	"verif/gen"
)

// C19: decoration lists behave as plain ordered lists without aliasing.

type c19Case struct {
	Init int   `json:"init"` // 0 nil, 1 empty non-nil, 2 one element with spare capacity
	Hist []int `json:"hist"`
}

var c19Methods = []string{"Append", "Prepend", "Replace"}

// argument shapes: 0 none, 1 one string, 2 two strings, 3 slice len1 cap3, 4 slice len2 cap3, 5 nil slice
const c19Shapes = 6

// initial lists: nil, empty, spare capacity, and four lists produced by the decorator / Clone
const c19Inits = 8

var c19NOps = len(c19Methods)*c19Shapes + 1 // + Clear

func c19OpName(op int) string {
	if op == c19NOps-1 {
		return "Clear()"
	}
	return fmt.Sprintf("%s(%s)", c19Methods[op/c19Shapes], []string{"", "s", "s,t", "backing[:1:3]...", "backing[:2:3]...", "nil..."}[op%c19Shapes])
}

func init() {
	core.Register(&core.Prop{
		ID:    "C19",
		Level: "model_checking",
		Rule: "explicit-state BFS over all histories of Append/Prepend/Replace x {no args, 1, 2 strings, slices with spare capacity, nil slice} and Clear, from 8 initial lists (nil, empty, spare capacity; the Start list, grown to three elements one at a time, of a node whose Clone lives in the same file - every operation is then also made, with values of its own, on the clone's list and both lists must follow their own models; Start and X of a qualified identifier the decorator collapsed with all three of its points filled, Start of its Clone, X of a decorated binary expression), " +
			"depth 7 (quick) / 10 (thorough); after every step: All() == []string model, caller backing arrays bit-identical, later caller mutation invisible, slices returned by earlier All() calls keep their contents, every other decoration list of the decorated file unchanged, printed comments == All() (at every decoration point of every node of a file with many optional parts absent; as a statement's Start decoration as the Start/X/End decorations of a package-qualified identifier under import management, and framed by newlines at the Start of an import spec of a block that receives a new import, which must leave the list untouched); " +
			"state key = (contents relabelled by first occurrence, spare capacity); non-trivial = state with >=2 elements",
		Assumptions: []string{"methods do not inspect string values (relabelling is a sound canonicalisation)"},
		Units: func(tier string) []string {
			var u []string
			for i := 0; i < c19Inits; i++ {
				for op := 0; op < c19NOps; op++ {
					u = append(u, fmt.Sprintf("init%d/first=%s", i, c19OpName(op)))
				}
			}
			return u
		},
		Run: func(ctx *core.Ctx, unit int) {
			initKind, root := unit/c19NOps, unit%c19NOps
			depth := 7
			if ctx.Thorough() {
				depth = 10
			}
			b := &explore.BFS{MaxDepth: depth, NOps: c19NOps, Stop: ctx.Expired, Root: root}
			b.Run(func(hist []int) (string, bool) {
				cs := c19Case{Init: initKind, Hist: hist}
				key, o := c19Exec(cs)
				ctx.Eval(cs, o)
				if len(hist) == 3 {
					ctx.Sample(c19Describe(cs))
				}
				if !o.OK {
					return "", false
				}
				n := strings.Count(key, ",")
				ctx.State(fmt.Sprintf("%d|%s", initKind, key), n >= 2)
				return key, true
			})
			ctx.R.Transitions += b.Transitions
			ctx.Max("depth", float64(b.Depth))
			if b.Cut {
				ctx.Cut("BFS cut")
			}
		},
		Check: func(c core.Case) core.Outcome {
			var cs c19Case
			if err := json.Unmarshal(c, &cs); err != nil {
				panic(err)
			}
			_, o := c19Exec(cs)
			return o
		},
	})
}

func c19Describe(cs c19Case) string {
	var s []string
	for _, op := range cs.Hist {
		s = append(s, c19OpName(op))
	}
	return fmt.Sprintf("init=%d: %s", cs.Init, strings.Join(s, "; "))
}

// c19Exec replays the history on a fresh real Decorations value next to a []string model.
func c19Exec(cs c19Case) (key string, out core.Outcome) {
	fail := func(k, f string, a ...interface{}) (string, core.Outcome) {
		return "", core.Outcome{Key: k, Desc: c19Describe(cs) + "\n" + fmt.Sprintf(f, a...)}
	}
	var own dst.Decorations
	dp := &own
	var model []string
	serial := 0
	fresh := func() string { serial++; return fmt.Sprintf("/*s%d*/", serial) }
	// lists handed out by the library (init >= 3) live next to sibling lists in a decorated file: an
	// operation on one list must leave every other list of the file as it was
	var siblings func() string
	// init 7: the node that owns the list has a Clone living in the same file; every operation on the list is followed
	// by an operation of the same kind, with values of its own, on the clone's corresponding list; each list must
	// follow its own model
	var twin *dst.Decorations
	var twinModel []string
	switch cs.Init {
	case 1:
		own = dst.Decorations{}
	case 2:
		b := make([]string, 1, 4)
		b[0] = fresh()
		own = dst.Decorations(b)
		model = []string{b[0]}
	case 3, 4, 5, 6, 7:
		f, target := c19LibraryList(cs.Init)
		if cs.Init == 7 {
			twin = c19Twin
			twinModel = append([]string{}, []string(*twin)...)
		}
		dp = target
		model = append([]string{}, []string(*dp)...)
		siblings = func() string {
			var b strings.Builder
			for ni, nd := range allNodes(f) {
				for _, p := range decPoints(nd) {
					if p.List != dp && p.List != twin && len(*p.List) > 0 {
						fmt.Fprintf(&b, "%d.%s=%q;", ni, p.Name, []string(*p.List))
					}
				}
			}
			return b.String()
		}
	}
	siblingsBefore := ""
	if siblings != nil {
		siblingsBefore = siblings()
	}
	type live struct {
		backing []string // full backing array (len 3)
		copyOf  []string
	}
	var lives []live
	var snapshots []c19Snap
	for step, op := range cs.Hist {
		var pan string
		if op == c19NOps-1 {
			pan = guard(func() { dp.Clear() })
			model = nil
		} else {
			m, shape := op/c19Shapes, op%c19Shapes
			var args []string
			var backing []string
			switch shape {
			case 1:
				args = []string{fresh()}
			case 2:
				args = []string{fresh(), fresh()}
			case 3, 4:
				backing = []string{fresh(), fresh(), fresh()}
				args = backing[: shape-2 : 3]
			case 5:
				args = nil
			}
			snapshot := append([]string{}, backing...)
			argCopy := append([]string{}, args...)
			pan = guard(func() {
				switch m {
				case 0:
					dp.Append(args...)
				case 1:
					dp.Prepend(args...)
				case 2:
					dp.Replace(args...)
				}
			})
			switch m {
			case 0:
				model = append(append([]string{}, model...), argCopy...)
			case 1:
				model = append(append([]string{}, argCopy...), model...)
			case 2:
				model = append([]string{}, argCopy...)
			}
			if backing != nil {
				if !reflect.DeepEqual(backing, snapshot) {
					return fail("caller-slice-modified", "step %d %s modified the caller's backing array: before %q after %q", step, c19OpName(op), snapshot, backing)
				}
				lives = append(lives, live{backing: backing, copyOf: snapshot})
			}
		}
		if pan != "" {
			return fail("panic", "step %d %s panicked: %s", step, c19OpName(op), pan)
		}
		// the caller now mutates every argument slice it ever passed: the list must not notice
		for li, l := range lives {
			l.backing[0] = fmt.Sprintf("MUT%d.%d", step, li)
			_ = append(l.backing[:1], fmt.Sprintf("APP%d.%d", step, li))
		}
		// values obtained from All() earlier keep their contents (an ordered list of strings that was
		// read before does not change because the list is cleared and refilled later)
		for si, sn := range snapshots {
			for i := range sn.want {
				if sn.got[i] != sn.want[i] {
					return fail("earlier-All-result-overwritten:"+c19Methods0(op), "step %d %s changed the slice All() had returned after step %d: %q, was %q", step, c19OpName(op), sn.step, []string(sn.got), sn.want)
				}
			}
			_ = si
		}
		if siblings != nil {
			if now := siblings(); now != siblingsBefore {
				return fail("sibling-list-changed:"+c19Methods0(op), "step %d %s on one decoration list changed another list of the same decorated file:\nbefore: %s\nafter:  %s", step, c19OpName(op), siblingsBefore, now)
			}
		}
		got := dp.All()
		snapshots = append(snapshots, c19Snap{step: step, got: got, want: append([]string{}, got...)})
		if len(got) != len(model) || (len(model) > 0 && !reflect.DeepEqual([]string(got), model)) {
			return fail("model-mismatch:"+c19Methods0(op), "after step %d %s: All() = %q, ordered-list model = %q", step, c19OpName(op), got, model)
		}
		if twin != nil {
			nargs := 0
			if op != c19NOps-1 {
				switch op % c19Shapes {
				case 1, 3:
					nargs = 1
				case 2, 4:
					nargs = 2
				}
			}
			var targs []string
			for i := 0; i < nargs; i++ {
				targs = append(targs, fresh())
			}
			tp := guard(func() {
				switch {
				case op == c19NOps-1:
					twin.Clear()
					twinModel = nil
				case op/c19Shapes == 0:
					twin.Append(targs...)
					twinModel = append(append([]string{}, twinModel...), targs...)
				case op/c19Shapes == 1:
					twin.Prepend(targs...)
					twinModel = append(append([]string{}, targs...), twinModel...)
				default:
					twin.Replace(targs...)
					twinModel = append([]string{}, targs...)
				}
			})
			if tp != "" {
				return fail("panic", "step %d %s on the clone's list panicked: %s", step, c19OpName(op), tp)
			}
			if g := twin.All(); len(g) != len(twinModel) || (len(g) > 0 && !reflect.DeepEqual([]string(g), twinModel)) {
				return fail("clone-list-model-mismatch:"+c19Methods0(op), "after step %d %s on the list of a node and then on the corresponding list of its Clone: the clone's All() = %q, model = %q", step, c19OpName(op), g, twinModel)
			}
			if g := dp.All(); len(g) != len(model) || (len(g) > 0 && !reflect.DeepEqual([]string(g), model)) {
				return fail("list-changed-by-operation-on-clone:"+c19Methods0(op), "step %d: %s on the corresponding list of the node's Clone changed the node's own list: All() = %q, model = %q", step, c19OpName(op), g, model)
			}
		}
		if err := c19Everywhere(*dp); err != nil {
			return fail("rendered-differs-at-some-point", "after step %d %s: %v", step, c19OpName(op), err)
		}
		if err := c19ImportAdd(*dp); err != nil {
			return fail("import-managed-render-differs-or-rewrites-the-list", "after step %d %s: %v", step, c19OpName(op), err)
		}
		if rendered, err := c19Render(*dp); err != nil {
			return fail("render-error", "after step %d: %v", step, err)
		} else if strings.Join(rendered, "\x00") != strings.Join(model, "\x00") {
			return fail("rendered-differs", "after step %d %s: rendered comments %q, All() = %q", step, c19OpName(op), rendered, got)
		}
	}
	// canonical key: contents relabelled by first occurrence + spare capacity
	lab := map[string]int{}
	var parts []string
	d := *dp
	for _, s := range []string(d) {
		if _, ok := lab[s]; !ok {
			lab[s] = len(lab)
		}
		parts = append(parts, fmt.Sprint(lab[s]))
	}
	nilness := "v"
	if d == nil {
		nilness = "n"
	}
	return fmt.Sprintf("%s,|cap+%d|%s", strings.Join(parts, ","), cap(d)-len(d), nilness), core.Outcome{OK: true}
}

// c19LibraryList returns a decorated file and one of its decoration lists as the library produced it:
// 3 = Start, 4 = X of a qualified identifier collapsed by the decorator with all of Start/X/End filled,
// 5 = Start of a Clone of that identifier (put in its place), 6 = X of a binary expression.
func c19LibraryList(kind int) (*dst.File, *dst.Decorations) {
	const src = "package a\n\nimport \"fmt\"\n\nvar v = []interface{}{\n\t/* s */ fmt. /* x */ Println, /* e */\n\t/* a */ 1 /* b */ + /* c */ 2, /* d */\n}\n"
	dec := decorator.NewDecoratorWithImports(token.NewFileSet(), "example.com/local", goast.WithResolver(simple.New(map[string]string{"fmt": "fmt"})))
	f, err := dec.Parse(src)
	if err != nil {
		panic(err)
	}
	lit := f.Decls[1].(*dst.GenDecl).Specs[0].(*dst.ValueSpec).Values[0].(*dst.CompositeLit)
	id := lit.Elts[0].(*dst.Ident)
	if id.Path != "fmt" {
		panic("c19: qualified identifier not collapsed")
	}
	switch kind {
	case 7:
		// a list grown one element at a time (as the decorator and callers grow them: spare capacity after the third),
		// on a node that is then cloned; the clone lives in the same file
		for _, c := range []string{"/* s2 */", "/* s3 */"} {
			id.Decs.Start.Append(c)
		}
		c := dst.Clone(id).(*dst.Ident)
		lit.Elts = append(lit.Elts, c)
		c19Twin = &c.Decs.Start
		return f, &id.Decs.Start
	case 3:
		return f, &id.Decs.Start
	case 4:
		return f, &id.Decs.X
	case 5:
		c := dst.Clone(id).(*dst.Ident)
		lit.Elts[0] = c
		return f, &c.Decs.Start
	}
	return f, &lit.Elts[1].(*dst.BinaryExpr).Decs.X
}

// c19Twin is the clone-side list of the last c19LibraryList(7) call.
var c19Twin *dst.Decorations

type c19Snap struct {
	step int
	got  []string
	want []string
}

func c19Methods0(op int) string {
	if op == c19NOps-1 {
		return "Clear"
	}
	return c19Methods[op/c19Shapes]
}

// c19Render attaches the list to a statement's Start point and returns the comments printed; it also
// renders the same list at the Start, X and End points of a package-qualified identifier under import
// management (a second rendering path: the identifier is expanded to a selector) and requires the same.
func c19Render(d dst.Decorations) ([]string, error) {
	plain, err := c19RenderPlain(d)
	if err != nil {
		return nil, err
	}
	for _, point := range []string{"Start", "X", "End"} {
		id := &dst.Ident{Name: "Sprint", Path: "fmt"}
		switch point {
		case "Start":
			id.Decs.Start = d
		case "X":
			id.Decs.X = d
		case "End":
			id.Decs.End = d
		}
		f := &dst.File{Name: dst.NewIdent("a"), Decls: []dst.Decl{&dst.GenDecl{Tok: token.VAR, Specs: []dst.Spec{&dst.ValueSpec{
			Names: []*dst.Ident{dst.NewIdent("v")}, Values: []dst.Expr{&dst.CallExpr{Fun: id}}}}}}}
		var buf bytes.Buffer
		var rerr error
		if p := guard(func() {
			rerr = decorator.NewRestorerWithImports("example.com/local", simple.New(map[string]string{"fmt": "fmt"})).Fprint(&buf, f)
		}); p != "" {
			return nil, fmt.Errorf("import-managed print panicked: %s", p)
		}
		if rerr != nil {
			return nil, rerr
		}
		var cs []string
		toks, _ := gen.Tokens(buf.String(), true)
		for _, t := range toks {
			if t.Tok == token.COMMENT {
				cs = append(cs, t.Lit)
			}
		}
		if strings.Join(cs, "\x00") != strings.Join(plain, "\x00") {
			return cs, fmt.Errorf("list at %s of a package-qualified identifier renders as %q", point, cs)
		}
	}
	return plain, nil
}

// c19Everywhere renders a list (relabelled, cached by content) at every decoration point of every node
// of a file that has many optional parts absent (if without else, break without label, func without
// results or body, tagless switch, for without post ...): what the list holds is what is printed,
// wherever the list is attached.
const c19EverywhereSrc = "package a\n\nfunc f(x int, c chan<- int) {\n\tif x > 0 {\n\t}\n\tfor {\n\t\tbreak\n\t}\n\tswitch {\n\t}\n\tfor i := 0; i < 1; {\n\t}\n\tvar v []int\n\t_ = v[:]\n\tgo g()\n\treturn\n}\n\nfunc g()\n\ntype T struct{ A int }\n\ntype I interface{ M() }\n\nvar w = g\n"

var c19EverywhereCache = map[string]error{}

func c19Everywhere(d dst.Decorations) error {
	lab := map[string]string{}
	var list []string
	for _, s := range d {
		if _, ok := lab[s]; !ok {
			lab[s] = fmt.Sprintf("/*L%d*/", len(lab))
		}
		list = append(list, lab[s])
	}
	key := strings.Join(list, ",")
	if err, ok := c19EverywhereCache[key]; ok {
		return err
	}
	err := func() error {
		if len(list) == 0 {
			return nil
		}
		f, perr := decorator.Parse(c19EverywhereSrc)
		if perr != nil {
			panic(perr)
		}
		for _, nd := range allNodes(f) {
			for _, p := range decPoints(nd) {
				saved := *p.List
				*p.List = append(dst.Decorations{}, list...)
				var out string
				var err error
				pan := guard(func() { out, err = printFile(f) })
				*p.List = saved
				if pan != "" || err != nil {
					continue // a block comment at this point makes text go/printer or the parser rejects: says nothing about the list
				}
				n := 0
				toks, _ := gen.Tokens(out, true)
				var got []string
				for _, t := range toks {
					if t.Tok == token.COMMENT {
						got = append(got, t.Lit)
						n++
					}
				}
				if strings.Join(got, ",") != key {
					return fmt.Errorf("list %q attached at %s.%s renders as %q", list, typeName(nd), p.Name, got)
				}
			}
		}
		return nil
	}()
	c19EverywhereCache[key] = err
	return err
}

// c19ImportAdd attaches the list, framed by newline entries, to the Start of an import spec of a file to
// which the import-managed restore has to add another import (the restorer re-spaces that block): the
// comments are rendered as listed, and rendering leaves the list's elements alone.
func c19ImportAdd(d dst.Decorations) error {
	list := append(append(dst.Decorations{"\n"}, d...), "\n")
	before := append([]string{}, list...)
	spec := &dst.ImportSpec{Path: &dst.BasicLit{Kind: token.STRING, Value: "\"fmt\""}}
	spec.Decs.Start = list
	f := &dst.File{Name: dst.NewIdent("a"), Decls: []dst.Decl{
		&dst.GenDecl{Tok: token.IMPORT, Lparen: true, Rparen: true, Specs: []dst.Spec{spec}},
		&dst.GenDecl{Tok: token.VAR, Specs: []dst.Spec{&dst.ValueSpec{Names: []*dst.Ident{dst.NewIdent("_")}, Values: []dst.Expr{
			&dst.CallExpr{Fun: &dst.Ident{Name: "Sprint", Path: "fmt"}, Args: []dst.Expr{&dst.Ident{Name: "EOF", Path: "io"}}}}}}},
	}}
	var buf bytes.Buffer
	var rerr error
	if p := guard(func() {
		rerr = decorator.NewRestorerWithImports("example.com/local", simple.New(map[string]string{"fmt": "fmt", "io": "io"})).Fprint(&buf, f)
	}); p != "" {
		return fmt.Errorf("import-managed print panicked: %s", p)
	}
	if rerr != nil {
		return rerr
	}
	if !reflect.DeepEqual([]string(list), before) {
		return fmt.Errorf("rendering rewrote the list's elements: %q became %q", before, []string(list))
	}
	var cs []string
	toks, _ := gen.Tokens(buf.String(), true)
	for _, t := range toks {
		if t.Tok == token.COMMENT {
			cs = append(cs, t.Lit)
		}
	}
	if strings.Join(cs, "\x00") != strings.Join([]string(d), "\x00") {
		return fmt.Errorf("list at the Start of an import spec of a block that receives a new import renders as %q, All() = %q", cs, []string(d))
	}
	return nil
}

func c19RenderPlain(d dst.Decorations) ([]string, error) {
	call := &dst.ExprStmt{X: &dst.CallExpr{Fun: dst.NewIdent("x")}}
	call.Decs.Start = d
	f := &dst.File{Name: dst.NewIdent("a"), Decls: []dst.Decl{&dst.FuncDecl{Name: dst.NewIdent("f"), Type: &dst.FuncType{Params: &dst.FieldList{}}, Body: &dst.BlockStmt{List: []dst.Stmt{call}}}}}
	var out string
	var err error
	if p := guard(func() { out, err = printFile(f) }); p != "" {
		return nil, fmt.Errorf("print panicked: %s", p)
	}
	if err != nil {
		return nil, err
	}
	var cs []string
	toks, _ := gen.Tokens(out, true)
	for _, t := range toks {
		if t.Tok == token.COMMENT {
			cs = append(cs, t.Lit)
		}
	}
	return cs, nil
}
