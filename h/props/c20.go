package props

import (
	"bytes"
	"encoding/json"
	"errors"
	"fmt"
	"go/ast"
	"go/token"
	"os"
	"path/filepath"
	"sort"
	"strings"

	"github.com/dave/dst"
	"github.com/dave/dst/decorator"
	"github.com/dave/dst/decorator/resolver"
	"github.com/dave/dst/decorator/resolver/goast"
	"github.com/dave/dst/decorator/resolver/simple"
	"golang.org/x/tools/go/packages"

	"verif/core"
	"verif/explore"
	"verif/gen"
)

// C20: saving a package writes exactly its files, unchanged unless edited.

var c20Pool = []string{"call", "blank", "dotted", "typepos", "@usesXa", "@usesXb", "@linedir", "@dotX"}

// two files that use different packages with the same name (x): an alias generated for one file must
// not leak into another
var c20Inline = map[string]string{
	"@usesXa": "package a\n\nimport \"a.b/x\"\n\nvar va = x.V\n",
	"@usesXb": "package a\n\nimport \"c.d/x\"\n\nvar vb = x.V\n\nvar wb = x.K\n",
	"@dotX":   "package a\n\nimport . \"a.b/x\"\n\nvar vd = V\n",
	// generated-code style: a line directive above the package clause names another file
	"@linedir": "//line grammar.y:1\npackage a\n\nimport \"fmt\"\n\nvar g = fmt.Sprint(1)\n",
}

type c20Case struct {
	Files   []string `json:"files"`   // template names, in Syntax order
	Dirs    []int    `json:"dirs"`    // directory (0/1) of each file
	Edits   []int    `json:"edits"`   // 0 none, 1 append a declaration needing a new import, 2 remove the last declaration, 3 append references to two packages with one name, 4 hand-appended unsorted import spec, 5 declaration with non-canonical number literals (4, 5: single-file packages)
	Choices []int    `json:"choices"` // fault choices (one per resolver call)
}

func init() {
	core.Register(&core.Prop{
		ID:    "C20",
		Level: "fault_enumeration",
		Rule: "hand-built decorator.Package values (1-3 files chosen from 8 import-bearing canonical sources (two use different packages of the same name, one dot-imports one of them, one carries a //line directive above its package clause), in 1-2 directories of a fresh temporary tree that also holds unrelated files) x every assignment of {unedited, declaration needing a new import appended, last declaration removed, declarations referring to two equally named packages appended} to the files (single-file packages also: an import spec appended by hand out of order, a declaration whose number literals gofmt would respell) " +
			"x every position of the package-name resolver's call sequence failed (choice tree, one failure), through Package.SaveWithResolver on the real file system, plus one history of Package.Save with its default resolver (the go tool) on a small module (save; dependency made unresolvable; two failing saves; dependency restored; save); oracle: directory snapshot (paths, bytes, modes) before/after: no path appears or disappears, " +
			"each saved file equals an independently computed import-managed print of a clone, unedited files are byte-identical, on failure the error is returned (wrapping the resolver's), the failing file and every later file are untouched; non-trivial = case with an edit or a failure",
		Assumptions: []string{"decorator.Load itself (go/packages) is not exercised: packages are built by hand with the same Decorator/Filenames/Syntax fields Load fills in"},
		Units: func(tier string) []string {
			var u []string
			for n := 1; n <= 3; n++ {
				for first := range c20Pool {
					u = append(u, fmt.Sprintf("files=%d/first=%s", n, c20Pool[first]))
				}
			}
			return append(u, "default-resolver")
		},
		Run: runC20,
		Check: func(c core.Case) core.Outcome {
			var cs c20Case
			if err := json.Unmarshal(c, &cs); err != nil {
				panic(err)
			}
			if len(cs.Files) == 1 && cs.Files[0] == "@default-resolver" {
				o, _ := c20DefaultResolver()
				return o
			}
			var o core.Outcome
			explore.Replay(cs.Choices, func(ch *explore.Chooser) { o = c20Exec(cs, ch) })
			return o
		},
	})
}

// c20DefaultResolver drives Package.Save (the default package-name resolver, which runs the go tool) on a
// small module in a temporary directory: save, make a dependency unresolvable and save again (error,
// nothing written), restore the dependency and save once more (same bytes as at the start).
// usable=false if the go tool cannot resolve names in this environment at all (then nothing is judged).
func c20DefaultResolver() (out core.Outcome, usable bool) {
	fail := func(key, f string, a ...interface{}) (core.Outcome, bool) {
		return core.Outcome{Key: key, Desc: "Package.Save with the default resolver: " + fmt.Sprintf(f, a...)}, true
	}
	root, err := os.MkdirTemp("", "c20def")
	if err != nil {
		panic(err)
	}
	defer os.RemoveAll(root)
	files := map[string]string{
		"go.mod":     "module root\n\ngo 1.14\n",
		"a.go":       "package root\n\nimport \"fmt\"\n\nfunc A() {\n\tfmt.Println(\"a\")\n}\n",
		"b.go":       "package root\n\nimport \"root/sub\"\n\nfunc B() string {\n\treturn sub.Hello()\n}\n",
		"c.go":       "package root\n\nimport \"strings\"\n\nfunc C() string {\n\treturn strings.ToUpper(\"c\")\n}\n",
		"sub/sub.go": "package sub\n\nfunc Hello() string {\n\treturn \"hello\"\n}\n",
	}
	for name, src := range files {
		os.MkdirAll(filepath.Dir(filepath.Join(root, name)), 0o755)
		os.WriteFile(filepath.Join(root, name), []byte(src), 0o644)
	}
	dec := decorator.NewDecoratorWithImports(token.NewFileSet(), "root", goast.WithResolver(simple.New(map[string]string{"fmt": "fmt", "strings": "strings", "root/sub": "sub"})))
	pkg := &decorator.Package{Package: &packages.Package{PkgPath: "root"}, Dir: root, Decorator: dec, Imports: map[string]*decorator.Package{}}
	for _, n := range []string{"a.go", "b.go", "c.go"} {
		f, perr := dec.ParseFile(filepath.Join(root, n), nil, 0)
		if perr != nil {
			panic(perr)
		}
		pkg.Syntax = append(pkg.Syntax, f)
	}
	changed := func() string {
		for _, n := range []string{"a.go", "b.go", "c.go"} {
			b, _ := os.ReadFile(filepath.Join(root, n))
			if string(b) != files[n] {
				return fmt.Sprintf("%s changed on disk:\n%s", n, diffDesc(files[n], string(b)))
			}
		}
		return ""
	}
	var serr error
	if p := guard(func() { serr = pkg.Save() }); p != "" || serr != nil {
		return core.Outcome{OK: true}, false // the go tool cannot be used here: outside what this check can judge
	}
	if c := changed(); c != "" {
		return fail("default-save-changes-unedited-files", "first Save: %s", c)
	}
	os.Rename(filepath.Join(root, "sub"), filepath.Join(root, "sub.moved"))
	for i := 1; i <= 2; i++ {
		if p := guard(func() { serr = pkg.Save() }); p != "" {
			return fail("default-save-panic", "Save #%d with an unresolvable import panicked: %s", i, p)
		}
		if serr == nil {
			return fail("default-save-failure-not-reported", "Save #%d: the name of root/sub cannot be resolved, yet Save returned nil", i)
		}
		if c := changed(); c != "" {
			return fail("default-save-writes-on-failure", "Save #%d failed (%v) but %s", i, serr, c)
		}
	}
	os.Rename(filepath.Join(root, "sub.moved"), filepath.Join(root, "sub"))
	if p := guard(func() { serr = pkg.Save() }); p != "" || serr != nil {
		return fail("default-save-retry-fails", "Save after the import became resolvable again: panic %q error %v", p, serr)
	}
	if c := changed(); c != "" {
		return fail("default-save-retry-differs", "retried Save: %s", c)
	}
	return core.Outcome{OK: true}, true
}

func runC20(ctx *core.Ctx, unit int) {
	if unit == 3*len(c20Pool) {
		cs := c20Case{Files: []string{"@default-resolver"}}
		o, usable := c20DefaultResolver()
		if !usable {
			ctx.Count("default resolver (go tool) not usable in this environment: Package.Save not judged", 1)
			return
		}
		ctx.CountState(true)
		ctx.R.Transitions += 4
		ctx.Eval(cs, o)
		return
	}
	n, first := unit/len(c20Pool)+1, unit%len(c20Pool)
	var rec func(files []string)
	rec = func(files []string) {
		if len(files) < n {
			for _, f := range c20Pool {
				dup := false
				for _, g := range files {
					if g == f {
						dup = true
					}
				}
				if !dup {
					rec(append(append([]string{}, files...), f))
				}
			}
			return
		}
		if n == 3 && !ctx.Thorough() {
			// quick tier: triples drawn from the first three sources, or containing both same-name files
			hasA, hasB, small := false, false, true
			for _, f := range files {
				hasA = hasA || f == "@usesXa" || f == "@dotX"
				hasB = hasB || f == "@usesXb"
				small = small && (f == c20Pool[0] || f == c20Pool[1] || f == c20Pool[2])
			}
			if !small && !(hasA && hasB) {
				return
			}
		}
		ndirs := 1 << (n - 1) // file 0 always in dir 0
		for dm := 0; dm < ndirs; dm++ {
			dirs := make([]int, n)
			for i := 1; i < n; i++ {
				dirs[i] = (dm >> (i - 1)) & 1
			}
			// single-file packages also get the edits a caller makes without the library's help (4: an import spec
			// appended by hand to the first import declaration, out of order; 5: a declaration with number
			// literals in a spelling gofmt normalises)
			base := 4
			if n == 1 {
				base = 6
			}
			ne := 1
			for i := 0; i < n; i++ {
				ne *= base
			}
			for em := 0; em < ne; em++ {
				edits := make([]int, n)
				x := em
				for i := range edits {
					edits[i] = x % base
					x /= base
				}
				if ctx.Expired() {
					ctx.Cut("configurations")
					return
				}
				tree := &explore.Tree{Bound: 1, Stop: ctx.Expired}
				tree.Explore(func(c *explore.Chooser) {
					cs := c20Case{Files: files, Dirs: dirs, Edits: edits}
					o := c20Exec(cs, c)
					cs.Choices = append([]int{}, c.Choices...)
					ctx.CountState(em != 0 || c.Deviations() > 0)
					ctx.Eval(cs, o)
					if c.Deviations() == 1 && em == 5 {
						ctx.Sample(cs)
					}
				})
				ctx.R.Transitions += tree.Transitions
			}
		}
	}
	rec([]string{c20Pool[first]})
}

type fsSnap map[string]string // relative path -> mode + "\x00" + bytes

func snapDir(root string) fsSnap {
	out := fsSnap{}
	filepath.Walk(root, func(p string, info os.FileInfo, err error) error {
		if err != nil {
			return err
		}
		rel, _ := filepath.Rel(root, p)
		if info.IsDir() {
			out[rel+"/"] = info.Mode().String()
			return nil
		}
		b, _ := os.ReadFile(p)
		out[rel] = info.Mode().String() + "\x00" + string(b)
		return nil
	})
	return out
}

func c20Exec(cs c20Case, c *explore.Chooser) core.Outcome {
	fail := func(key, f string, a ...interface{}) core.Outcome {
		b, _ := json.Marshal(cs)
		return core.Outcome{Key: key, Desc: string(b) + " choices=" + fmt.Sprint(c.Choices) + "\n" + fmt.Sprintf(f, a...)}
	}
	root, err := scratchDir("c20-")
	if err != nil {
		panic(err)
	}
	defer os.RemoveAll(root)
	dirs := []string{filepath.Join(root, "pkg"), filepath.Join(root, "pkg", "sub")}
	for _, d := range dirs {
		os.MkdirAll(d, 0o755)
	}
	// unrelated files
	os.WriteFile(filepath.Join(dirs[0], "other.go"), []byte("package a\n\n// not part of the package value\nvar other = 1\n"), 0o644)
	os.WriteFile(filepath.Join(dirs[0], "notes.txt"), []byte("notes\n"), 0o600)
	os.WriteFile(filepath.Join(dirs[1], "z_unrelated.go"), []byte("package sub\n"), 0o644)
	os.MkdirAll(filepath.Join(root, "elsewhere"), 0o755)
	os.WriteFile(filepath.Join(root, "elsewhere", "x.go"), []byte("package x\n"), 0o644)

	fset := token.NewFileSet()
	dec := decorator.NewDecoratorWithImports(fset, localPath, c20Resolver{goast.WithResolver(simple.New(stdNames))})
	pkg := &decorator.Package{Package: &packages.Package{PkgPath: localPath}, Dir: dirs[0], Decorator: dec, Imports: map[string]*decorator.Package{}}
	var names []string
	srcs := map[string]string{}
	for i, tn := range cs.Files {
		t, ok := gen.Find(importTemplates(), tn)
		if s, inline := c20Inline[tn]; inline {
			t, ok = gen.Template{Name: tn, Src: s}, true
		}
		if !ok {
			panic("unknown template " + tn)
		}
		name := filepath.Join(dirs[cs.Dirs[i]], fmt.Sprintf("f%d_%s.go", i, tn))
		mode := os.FileMode(0o644)
		if i == 1 {
			mode = 0o600
		}
		if err := os.WriteFile(name, []byte(t.Src), mode); err != nil {
			panic(err)
		}
		f, err := dec.ParseFile(name, nil, 0)
		if err != nil {
			return fail("engine:parse", "%v", err)
		}
		pkg.Syntax = append(pkg.Syntax, f)
		names = append(names, name)
		srcs[name] = t.Src
	}
	// edits
	for i, f := range pkg.Syntax {
		switch cs.Edits[i] {
		case 1:
			f.Decls = append(f.Decls, &dst.GenDecl{Tok: token.VAR, Specs: []dst.Spec{&dst.ValueSpec{
				Names:  []*dst.Ident{dst.NewIdent(fmt.Sprintf("added%d", i))},
				Values: []dst.Expr{&dst.CallExpr{Fun: &dst.Ident{Name: "NewBufferString", Path: "bytes"}, Args: []dst.Expr{&dst.BasicLit{Kind: token.STRING, Value: `"x"`}}}},
			}}})
		case 2:
			f.Decls = f.Decls[:len(f.Decls)-1]
		case 4:
			for _, d := range f.Decls {
				if gd, ok := d.(*dst.GenDecl); ok && gd.Tok == token.IMPORT {
					gd.Lparen = true
					gd.Specs = append(gd.Specs, &dst.ImportSpec{Name: dst.NewIdent("_"), Path: &dst.BasicLit{Kind: token.STRING, Value: `"a.a/first"`}})
					break
				}
			}
		case 5:
			f.Decls = append(f.Decls, &dst.GenDecl{Tok: token.VAR, Specs: []dst.Spec{&dst.ValueSpec{
				Names:  []*dst.Ident{dst.NewIdent(fmt.Sprintf("lit%d", i))},
				Values: []dst.Expr{&dst.BinaryExpr{X: &dst.BasicLit{Kind: token.INT, Value: "0XFF"}, Op: token.ADD, Y: &dst.BasicLit{Kind: token.FLOAT, Value: "1E3"}}},
			}}})
		case 3:
			// references to both packages named x: the restorer has to generate a conflict alias
			for j, p := range []string{"a.b/x", "c.d/x"} {
				f.Decls = append(f.Decls, &dst.GenDecl{Tok: token.VAR, Specs: []dst.Spec{&dst.ValueSpec{
					Names:  []*dst.Ident{dst.NewIdent(fmt.Sprintf("conflict%d_%d", i, j))},
					Values: []dst.Expr{&dst.Ident{Name: "V", Path: p}},
				}}})
			}
		}
	}
	// independent expectation, computed on clones before saving
	want := map[string]string{}
	for i, f := range pkg.Syntax {
		var buf bytes.Buffer
		if err := decorator.NewRestorerWithImports(localPath, simple.New(stdNames)).Fprint(&buf, dst.Clone(f).(*dst.File)); err != nil {
			return fail("engine:expectation", "%v", err)
		}
		want[names[i]] = buf.String()
	}
	before := snapDir(root)
	ctl := &faultCtl{c: c}
	var serr error
	if p := guard(func() { serr = pkg.SaveWithResolver(faultyRes{simple.New(stdNames), ctl}) }); p != "" {
		return fail("panic", "SaveWithResolver panicked: %s", p)
	}
	after := snapDir(root)
	// no path appears or disappears
	var paths []string
	for p := range before {
		paths = append(paths, p)
	}
	sort.Strings(paths)
	for p := range after {
		if _, ok := before[p]; !ok {
			return fail("file-created", "Save created %s", p)
		}
	}
	isSaved := map[string]int{}
	for i, n := range names {
		rel, _ := filepath.Rel(root, n)
		isSaved[rel] = i + 1
	}
	// which file failed? files are saved in Syntax order; the first whose resolver call failed aborts
	if ctl.failed {
		if serr == nil {
			return fail("failure-swallowed", "the resolver failed but Save returned nil")
		}
		if !errors.Is(serr, errInjected) {
			return fail("error-not-wrapped", "Save returned %q, which does not wrap the resolver's error", serr)
		}
	} else if serr != nil {
		return fail("spurious-error", "Save returned %v", serr)
	}
	for _, p := range paths {
		a, ok := after[p]
		if !ok {
			return fail("file-removed", "Save removed %s", p)
		}
		idx := isSaved[p]
		if idx == 0 {
			if a != before[p] {
				return fail("unrelated-file-changed", "Save changed %s, which is not a file of the package", p)
			}
			continue
		}
		i := idx - 1
		modeA, bytesA := splitSnap(a)
		modeB, bytesB := splitSnap(before[p])
		if modeA != modeB {
			return fail("mode-changed", "%s: mode %s -> %s", p, modeB, modeA)
		}
		if bytesA == bytesB && bytesA != want[names[i]] {
			// untouched although a change was due: legitimate only after a failure (order checked below)
			if !ctl.failed {
				return fail("file-not-written", "%s was not written\nexpected:\n%s", p, want[names[i]])
			}
			continue
		}
		if bytesA != want[names[i]] {
			return fail("saved-bytes-differ", "%s: bytes on disk differ from the import-managed print of the file\n%s", p, diffDesc(want[names[i]], bytesA))
		}
		if cs.Edits[i] == 0 && bytesA != srcs[names[i]] {
			return fail("unedited-file-changed", "%s was not edited, yet its bytes changed\n%s", p, diffDesc(srcs[names[i]], bytesA))
		}
	}
	if ctl.failed {
		// every file after the first file that needed the failing call must be untouched; since unedited
		// files are byte-identical either way, check the edited ones: at least the failing file and all
		// later edited files still hold their old bytes
		sawOld := false
		for i, n := range names {
			rel, _ := filepath.Rel(root, n)
			_, b := splitSnap(after[rel])
			old := b == srcs[n]
			if sawOld && !old {
				return fail("written-after-failure", "%s was written although an earlier file failed", rel)
			}
			if old && want[n] != srcs[n] {
				sawOld = true
			}
			_ = i
		}
	}
	return core.Outcome{OK: true}
}

func splitSnap(s string) (mode, data string) {
	i := strings.Index(s, "\x00")
	return s[:i], s[i+1:]
}

// c20Resolver is the syntax-based resolver, extended for the one pool file that dot-imports a.b/x (which
// the syntax-based resolver refuses): there the unresolved identifiers V, K, W, F, T denote that package.
type c20Resolver struct{ inner resolver.DecoratorResolver }

func (r c20Resolver) ResolveIdent(file *ast.File, parent ast.Node, parentField string, id *ast.Ident) (string, error) {
	if file != nil {
		for _, is := range file.Imports {
			if is.Name != nil && is.Name.Name == "." {
				if _, isSel := parent.(*ast.SelectorExpr); !isSel && id.Obj == nil {
					switch id.Name {
					case "V", "K", "W", "F", "T":
						return "a.b/x", nil
					}
				}
				return "", nil
			}
		}
	}
	return r.inner.ResolveIdent(file, parent, parentField, id)
}
