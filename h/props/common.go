// Package props holds one file per property check.
package props

import (
	"bytes"
	"encoding/json"
	"fmt"
	"go/format"
	"go/parser"
	"go/token"
	"os"
	"runtime/debug"
	"strings"

	"github.com/dave/dst"
	"github.com/dave/dst/decorator"

	"verif/core"
	"verif/explore"
	"verif/gen"
)

// GapCase is a replayable input case: a source text, with provenance.
type GapCase struct {
	Src      string    `json:"src"`
	Template string    `json:"template,omitempty"`
	Ins      []gen.Ins `json:"ins,omitempty"`
	Choices  []int     `json:"choices,omitempty"`
	Variant  string    `json:"variant,omitempty"`
}

func decodeGap(c core.Case) GapCase {
	var g GapCase
	if err := json.Unmarshal(c, &g); err != nil {
		panic(err)
	}
	return g
}

// gapUnits builds unit names "template#shard".
func gapUnits(ts []gen.Template, shards int) []string {
	var out []string
	for _, t := range ts {
		for s := 0; s < shards; s++ {
			out = append(out, fmt.Sprintf("%s#%d/%d", t.Name, s, shards))
		}
	}
	return out
}

// forEachInsertion explores, with the choice-tree explorer, every assignment of at most k letters
// of the alphabet to the gaps of the template (one letter per gap) and calls fn with the resulting
// candidate text. Sharded by level-1 subtree.
func forEachInsertion(ctx *core.Ctx, t gen.Template, alphabet []string, k, shard, nshards int, fn func(cand string, ins []gen.Ins, choices []int)) {
	gaps := gen.Gaps(t.Src)
	tree := &explore.Tree{Bound: k, Shard: shard, NShards: nshards, Stop: ctx.Expired}
	tree.Explore(func(c *explore.Chooser) {
		var ins []gen.Ins
		for g := range gaps {
			if a := c.Choose(1 + len(alphabet)); a > 0 {
				ins = append(ins, gen.Ins{Gap: g, Letter: a - 1})
			}
		}
		if explore.SkipJudge() {
			return
		}
		fn(gen.Apply(t.Src, gaps, alphabet, ins), ins, append([]int{}, c.Choices...))
	})
	ctx.R.Transitions += tree.Transitions
	ctx.Count("executions", tree.Executions)
	ctx.Max("gaps_max", float64(len(gaps)))
	ctx.Max("deviation_bound", float64(k))
	if tree.Cut {
		ctx.Cut(fmt.Sprintf("choice tree of %s cut at %d executions", t.Name, tree.Executions))
	}
}

// forEachCanonical is forEachInsertion followed by gofmt canonicalisation and deduplication.
func forEachCanonical(ctx *core.Ctx, t gen.Template, alphabet []string, k, shard, nshards int, fn func(gc GapCase)) {
	forEachInsertion(ctx, t, alphabet, k, shard, nshards, func(cand string, ins []gen.Ins, choices []int) {
		ctx.Count("candidates", 1)
		canon, err := gofmt(cand)
		if err != nil {
			ctx.Count("dropped_unparseable", 1)
			return
		}
		if !ctx.State(canon, len(ins) > 0) {
			ctx.Count("duplicate_canonical", 1)
			return
		}
		if again, err := gofmt(canon); err != nil || again != canon {
			ctx.Count("dropped_gofmt_not_idempotent", 1)
			return
		}
		fn(GapCase{Src: canon, Template: t.Name, Ins: ins})
	})
}

func splitUnit(u int, nshards int) (tmpl, shard int) { return u / nshards, u % nshards }

// guard runs f and converts a panic into a string.
func guard(f func()) (panicked string) {
	defer func() {
		if r := recover(); r != nil {
			panicked = fmt.Sprintf("%v", r)
			st := string(debug.Stack())
			// first dst frame
			for _, l := range strings.Split(st, "\n") {
				if strings.Contains(l, "github.com/dave/dst") || strings.Contains(l, "/repo/") {
					panicked += " @ " + strings.TrimSpace(l)
					break
				}
			}
		}
	}()
	f()
	return ""
}

// roundTrip is decorator.Parse + decorator.Fprint.
func roundTrip(src string) (string, error) {
	f, err := decorator.Parse(src)
	if err != nil {
		return "", err
	}
	return printFile(f)
}

func printFile(f *dst.File) (string, error) {
	var buf bytes.Buffer
	if err := decorator.Fprint(&buf, f); err != nil {
		return buf.String(), err
	}
	return buf.String(), nil
}

func mustPrint(f *dst.File) string {
	s, err := printFile(f)
	if err != nil {
		panic(err)
	}
	return s
}

func gofmt(src string) (string, error) {
	b, err := format.Source([]byte(src))
	return string(b), err
}

func parseAst(src string) (*token.FileSet, error) {
	fset := token.NewFileSet()
	_, err := parser.ParseFile(fset, "", src, parser.ParseComments)
	return fset, err
}

func diffDesc(want, got string) string {
	wl, gl := strings.Split(want, "\n"), strings.Split(got, "\n")
	for i := 0; i < len(wl) || i < len(gl); i++ {
		var w, g string
		if i < len(wl) {
			w = wl[i]
		}
		if i < len(gl) {
			g = gl[i]
		}
		if w != g {
			return fmt.Sprintf("first difference at line %d:\n  want: %q\n  got:  %q\n--- want ---\n%s\n--- got ---\n%s", i+1, w, g, want, got)
		}
	}
	return "equal"
}

func short(s string, n int) string {
	if len(s) <= n {
		return s
	}
	return s[:n] + "…"
}

// scratchDir creates a temporary directory, on tmpfs when the machine has one (C20 and the ParseDir
// entry point of C01 do real file system work per case).
func scratchDir(prefix string) (string, error) {
	if st, err := os.Stat("/dev/shm"); err == nil && st.IsDir() {
		if d, err := os.MkdirTemp("/dev/shm", prefix); err == nil {
			return d, nil
		}
	}
	return os.MkdirTemp("", prefix)
}
