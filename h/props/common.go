// Package props holds one file per property check.
package props

import (
	"bytes"
	"encoding/json"
	"fmt"
	"go/format"
	"go/parser"
	"go/token"
	"os"
	"runtime/debug"
	"strings"

	"github.com/dave/dst"
	"github.com/dave/dst/decorator"

	"verif/core"
	"verif/explore"
	"verif/gen"
)

// GapCase is a replayable input case: a source text, with provenance.
type GapCase struct {
	Src      string    `json:"src"`
	Template string    `json:"template,omitempty"`
	Ins      []gen.Ins `json:"ins,omitempty"`
	Choices  []int     `json:"choices,omitempty"`
	Variant  string    `json:"variant,omitempty"`
}

func decodeGap(c core.Case) GapCase {
	var g GapCase
	if err := json.Unmarshal(c, &g); err != nil {
		panic(err)
	}
	return g
}

// gapUnits builds unit names "template#shard".
func gapUnits(ts []gen.Template, shards int) []string {
	var out []string
	for _, t := range ts {
		for s := 0; s < shards; s++ {
			out = append(out, fmt.Sprintf("%s#%d/%d", t.Name, s, shards))
		}
	}
	return out
}

// forEachInsertion explores, with the choice-tree explorer, every assignment of at most k letters
// of the alphabet to the gaps of the template (one letter per gap) and calls fn with the resulting
// candidate text. Sharded by level-1 subtree.
func forEachInsertion(ctx *core.Ctx, t gen.Template, alphabet []string, k, shard, nshards int, fn func(cand string, ins []gen.Ins, choices []int)) {
	gaps := gen.Gaps(t.Src)
	tree := &explore.Tree{Bound: k, Shard: shard, NShards: nshards, Stop: ctx.Expired}
	tree.Explore(func(c *explore.Chooser) {
		var ins []gen.Ins
		for g := range gaps {
			if a := c.Choose(1 + len(alphabet)); a > 0 {
				ins = append(ins, gen.Ins{Gap: g, Letter: a - 1})
			}
		}
		if explore.SkipJudge() {
			return
		}
		fn(gen.Apply(t.Src, gaps, alphabet, ins), ins, append([]int{}, c.Choices...))
	})
	ctx.R.Transitions += tree.Transitions
	ctx.Count("executions", tree.Executions)
	ctx.Max("gaps_max", float64(len(gaps)))
	ctx.Max("deviation_bound", float64(k))
	if tree.Cut {
		ctx.Cut(fmt.Sprintf("choice tree of %s cut at %d executions", t.Name, tree.Executions))
	}
}

// forEachCanonical is forEachInsertion followed by gofmt canonicalisation and deduplication.
func forEachCanonical(ctx *core.Ctx, t gen.Template, alphabet []string, k, shard, nshards int, fn func(gc GapCase)) {
	forEachInsertion(ctx, t, alphabet, k, shard, nshards, func(cand string, ins []gen.Ins, choices []int) {
		ctx.Count("candidates", 1)
		canon, err := gofmt(cand)
		if err != nil {
			ctx.Count("dropped_unparseable", 1)
			return
		}
		if !ctx.State(canon, len(ins) > 0) {
			ctx.Count("duplicate_canonical", 1)
			return
		}
		if again, err := gofmt(canon); err != nil || again != canon {
			ctx.Count("dropped_gofmt_not_idempotent", 1)
			return
		}
		fn(GapCase{Src: canon, Template: t.Name, Ins: ins})
	})
}

func splitUnit(u int, nshards int) (tmpl, shard int) { return u / nshards, u % nshards }

// guard runs f and converts a panic into a string.
func guard(f func()) (panicked string) {
	defer func() {
		if r := recover(); r != nil {
			panicked = fmt.Sprintf("%v", r)
			st := string(debug.Stack())
			// first dst frame
			for _, l := range strings.Split(st, "\n") {
				if strings.Contains(l, "github.com/dave/dst") || strings.Contains(l, "/repo/") {
					// the frame without its argument words (addresses differ from run to run and would
					// split one root cause over many violation keys)
					l = strings.TrimSpace(l)
					if i := strings.LastIndex(l, "("); i > 0 && strings.HasSuffix(l, ")") {
						l = l[:i]
					}
					panicked += " @ " + l
					break
				}
			}
		}
	}()
	f()
	return ""
}

// roundTrip is decorator.Parse + decorator.Fprint.
func roundTrip(src string) (string, error) {
	f, err := decorator.Parse(src)
	if err != nil {
		return "", err
	}
	return printFile(f)
}

func printFile(f *dst.File) (string, error) {
	var buf bytes.Buffer
	if err := decorator.Fprint(&buf, f); err != nil {
		return buf.String(), err
	}
	return buf.String(), nil
}

// lateRestorer returns a Restorer whose FileSet already holds an earlier file, so that the next file
// it restores does not start at position 1 (what happens to every file but the first of a package
// that is saved, and whenever Restorer.Fset is a pre-existing FileSet).
func lateRestorer(r *decorator.Restorer) *decorator.Restorer {
	r.Fset.AddFile("earlier.go", r.Fset.Base(), 4321)
	return r
}

// printFileLate prints f through lateRestorer. A property about printed output holds for every
// position the file may take in a FileSet, so checks print both ways and require equal results.
func printFileLate(f *dst.File) (string, error) {
	var buf bytes.Buffer
	err := lateRestorer(decorator.NewRestorer()).Fprint(&buf, f)
	return buf.String(), err
}

const otherFileSrc = "package other\n\n// c\nvar (\n\ta = 1\n\n\tb = `x\ny`\n)\n\nfunc f() {\n\ta()\n\n\t/*\n\t   m\n\t*/\n\tb()\n}\n"

var otherFileTree *dst.File

// otherFile is the decorated sibling file (decorated once per process: restoring does not change a dst tree).
func otherFile() *dst.File {
	if otherFileTree == nil {
		f, err := decorator.Parse(otherFileSrc)
		if err != nil {
			panic(err)
		}
		otherFileTree = f
	}
	return otherFileTree
}

// printFileBeforeAnother restores f, optionally lets the same Restorer restore another file, and only
// then prints f's ast (a package restored as a whole and printed afterwards).
func printFileBeforeAnother(f *dst.File, another bool) (string, error) {
	r := decorator.NewRestorer()
	af, err := r.RestoreFile(f)
	if err != nil {
		return "", err
	}
	if another {
		other := otherFile()
		if _, err := r.RestoreFile(other); err != nil {
			panic(err)
		}
	}
	var buf bytes.Buffer
	err = format.Node(&buf, r.Fset, af)
	return buf.String(), err
}

// printFileFRBeforeAnother is printFileBeforeAnother with one FileRestorer doing both restores.
func printFileFRBeforeAnother(f *dst.File, another bool) (string, error) {
	fr := decorator.NewRestorer().FileRestorer()
	af, err := fr.RestoreFile(f)
	if err != nil {
		return "", err
	}
	if another {
		other := otherFile()
		fr.Name = "other.go"
		if _, err := fr.RestoreFile(other); err != nil {
			panic(err)
		}
	}
	var buf bytes.Buffer
	err = format.Node(&buf, fr.Fset, af)
	return buf.String(), err
}

// printFileReusedFileRestorer prints f with a FileRestorer that has printed another (commented) file
// before, or with a fresh one.
func printFileReusedFileRestorer(f *dst.File, reused bool) (string, error) {
	fr := decorator.NewRestorer().FileRestorer()
	if reused {
		other := otherFile()
		var sink bytes.Buffer
		if err := fr.Fprint(&sink, other); err != nil {
			panic(err)
		}
	}
	var buf bytes.Buffer
	err := fr.Fprint(&buf, f)
	return buf.String(), err
}

// printFileBoth prints f directly, late, and before another file is restored by the same Restorer;
// differs is non-empty if the prints disagree.
func printFileBoth(f *dst.File) (out string, err error, differs string) {
	out, err = printFile(f)
	if err == nil {
		// like against like: RestoreFile + format.Node with and without the second restore in between
		alone, aerr := printFileBeforeAnother(f, false)
		early, eerr := printFileBeforeAnother(f, true)
		if (aerr == nil) != (eerr == nil) || early != alone {
			return out, err, fmt.Sprintf("the print changes when the same Restorer restores another file before the first is printed (errors: %v / %v)\n%s", aerr, eerr, diffDesc(alone, early))
		}
	}
	if err == nil {
		alone, aerr := printFileFRBeforeAnother(f, false)
		early, eerr := printFileFRBeforeAnother(f, true)
		if (aerr == nil) != (eerr == nil) || early != alone {
			return out, err, fmt.Sprintf("the print changes when the same FileRestorer restores another file before the first is printed (errors: %v / %v)\n%s", aerr, eerr, diffDesc(alone, early))
		}
	}
	if err == nil {
		fresh, ferr := printFileReusedFileRestorer(f, false)
		reused, rerr := printFileReusedFileRestorer(f, true)
		if (ferr == nil) != (rerr == nil) || fresh != reused {
			return out, err, fmt.Sprintf("the print changes when the FileRestorer has printed another file before (errors: %v / %v)\n%s", ferr, rerr, diffDesc(fresh, reused))
		}
	}
	late, lerr := printFileLate(f)
	if (err == nil) != (lerr == nil) {
		return out, err, fmt.Sprintf("printed directly: error %v; printed by a Restorer whose FileSet already holds a file: error %v", err, lerr)
	}
	if err == nil && late != out {
		return out, err, "the print depends on the file's position in the restorer's FileSet\n" + diffDesc(out, late)
	}
	return out, err, ""
}

func mustPrint(f *dst.File) string {
	s, err := printFile(f)
	if err != nil {
		panic(err)
	}
	return s
}

func gofmt(src string) (string, error) {
	b, err := format.Source([]byte(src))
	return string(b), err
}

func parseAst(src string) (*token.FileSet, error) {
	fset := token.NewFileSet()
	_, err := parser.ParseFile(fset, "", src, parser.ParseComments)
	return fset, err
}

func diffDesc(want, got string) string {
	wl, gl := strings.Split(want, "\n"), strings.Split(got, "\n")
	for i := 0; i < len(wl) || i < len(gl); i++ {
		var w, g string
		if i < len(wl) {
			w = wl[i]
		}
		if i < len(gl) {
			g = gl[i]
		}
		if w != g {
			return fmt.Sprintf("first difference at line %d:\n  want: %q\n  got:  %q\n--- want ---\n%s\n--- got ---\n%s", i+1, w, g, want, got)
		}
	}
	return "equal"
}

func short(s string, n int) string {
	if len(s) <= n {
		return s
	}
	return s[:n] + "…"
}

// scratchDir creates a temporary directory, on tmpfs when the machine has one (C20 and the ParseDir
// entry point of C01 do real file system work per case).
func scratchDir(prefix string) (string, error) {
	if st, err := os.Stat("/dev/shm"); err == nil && st.IsDir() {
		if d, err := os.MkdirTemp("/dev/shm", prefix); err == nil {
			return d, nil
		}
	}
	return os.MkdirTemp("", prefix)
}

// apiPut fills a decoration list the way a caller may: through Append / Prepend in the spread form, handing over a
// slice of its own that has spare capacity, and reusing (here: overwriting) that slice afterwards. With lists that
// behave as plain values this is the same as assigning the strings.
func apiPut(list *dst.Decorations, prepend bool, vals ...string) {
	buf := make([]string, len(vals), len(vals)+4)
	copy(buf, vals)
	if prepend {
		list.Prepend(buf...)
	} else {
		list.Append(buf...)
	}
	buf = buf[:cap(buf)]
	for i := range buf {
		buf[i] = "/*stale: the caller's slice, reused after the call*/"
	}
}

// apiPutAll puts several entries: the last one appended, the others prepended in front of it.
func apiPutAll(list *dst.Decorations, vals ...string) {
	if len(vals) == 0 {
		return
	}
	apiPut(list, false, vals[len(vals)-1])
	if len(vals) > 1 {
		apiPut(list, true, vals[:len(vals)-1]...)
	}
}
