package props

import (
	"bytes"
	"encoding/json"
	"fmt"
	"go/ast"
	"go/parser"
	"go/token"
	"sort"
	"strconv"
	"strings"

	"github.com/dave/dst"
	"github.com/dave/dst/decorator"
	"github.com/dave/dst/decorator/resolver/goast"
	"github.com/dave/dst/decorator/resolver/simple"

	"verif/core"
	"verif/gen"
)

// "Reference everywhere": the import-related properties (C07, C08, C10) quantify over programs, and a
// reference to another package may sit in any syntactic position. The role catalogues of those checks
// list positions by hand; this enumeration takes them from the corpus instead: for every template and
// every slot of its tree that holds an identifier in a *use* position (every node type and every
// child field the corpus has), one reference to a package that the file does not import yet is put
// into that slot. The three checks then ask their own question about that file:
//
//	C07  the tree with a path-carrying identifier in the slot, restored with import management:
//	     the output parses, imports exactly the template's imports plus the package, and contains the
//	     reference as a selector on that import exactly once and nowhere bare;
//	C08  the source text with the qualified reference and the import (written without the restorer:
//	     the plain print of the tree with an identifier *named* "zqx.Id0", plus an import line), decorated
//	     with the syntax-based resolver: exactly the reference carries the path; restored with import
//	     management: bytes unchanged (when the plain round trip of that text is byte-exact);
//	C10  the declaration holding the reference, taken from that decorated file and put into an empty
//	     file of another package: the restored file imports the package and holds the selector.
type siteCase struct {
	Everywhere string `json:"everywhere"` // "C07" | "C08" | "C10"
	Template   string `json:"template"`
	Site       int    `json:"site"`
}

const (
	sitePath = "q.r/zqx"
	siteName = "zqx"
	siteRef  = "Id0"
)

var siteNames = map[string]string{sitePath: siteName, "fmt": "fmt", "io": "io", "os": "os", "bytes": "bytes", "strings": "strings", "sort": "sort", "unsafe": "unsafe", "C": "C"}

// siteTemplates: corpus files without imports of their own keep the expected import set trivial.
func siteTemplates() []gen.Template {
	var out []gen.Template
	for _, t := range gen.Templates() {
		if !strings.Contains(t.Src, "import ") && !strings.Contains(t.Src, siteName) && !strings.Contains(t.Src, siteRef) {
			out = append(out, t)
		}
	}
	return out
}

// declaring (or otherwise non-use) positions: an identifier there is not a reference
func siteDeclaring(s slot) bool {
	switch typeName(s.Parent) + "." + s.Field {
	case "File.Name", "Field.Names", "LabeledStmt.Label", "BranchStmt.Label", "ValueSpec.Names", "TypeSpec.Name", "FuncDecl.Name", "SelectorExpr.Sel", "ImportSpec.Name":
		return true
	case "AssignStmt.Lhs":
		return s.Parent.(*dst.AssignStmt).Tok == token.DEFINE
	case "RangeStmt.Key", "RangeStmt.Value":
		return s.Parent.(*dst.RangeStmt).Tok == token.DEFINE
	}
	return false
}

// siteSlots lists the use-position identifier slots of a freshly decorated copy of the template.
func siteSlots(t gen.Template) (*dst.File, []slot) {
	f, err := decorator.Parse(t.Src)
	if err != nil {
		panic(err)
	}
	var out []slot
	for _, s := range allSlots(f) {
		if _, ok := s.Get().(*dst.Ident); ok && !siteDeclaring(s) {
			out = append(out, s)
		}
	}
	return f, out
}

// siteSource writes the file with the qualified reference without using import management.
func siteSource(t gen.Template, site int) (string, bool) {
	f, slots := siteSlots(t)
	old := slots[site].Get().(*dst.Ident)
	id := &dst.Ident{Name: siteName + "." + siteRef}
	id.Decs = old.Decs
	slots[site].Set(id)
	out, err := printFile(f)
	if err != nil {
		return "", false
	}
	i := strings.Index(out, "package ")
	j := i + strings.Index(out[i:], "\n") + 1
	src := out[:j] + "\nimport " + strconv.Quote(sitePath) + "\n" + out[j:]
	src, err = gofmt(src)
	if err != nil {
		return "", false
	}
	return src, true
}

// siteJudge: the printed file imports want exactly and holds the reference exactly once, qualified.
func siteJudge(out string, wantImports []string) (key, desc string) {
	fset := token.NewFileSet()
	af, err := parser.ParseFile(fset, "out.go", out, parser.ParseComments)
	if err != nil {
		return "output-does-not-parse", err.Error()
	}
	var got []string
	binding := map[string]string{}
	for _, is := range af.Imports {
		p, _ := strconv.Unquote(is.Path.Value)
		got = append(got, p)
		name := siteNames[p]
		if is.Name != nil {
			name = is.Name.Name
		}
		binding[name] = p
	}
	sort.Strings(got)
	want := append([]string{}, wantImports...)
	sort.Strings(want)
	if strings.Join(got, " ") != strings.Join(want, " ") {
		return "import-set", fmt.Sprintf("imports %v, expected %v", got, want)
	}
	sels, bare := 0, 0
	selIdent := map[*ast.Ident]bool{}
	ast.Inspect(af, func(n ast.Node) bool {
		switch n := n.(type) {
		case *ast.SelectorExpr:
			if x, ok := n.X.(*ast.Ident); ok && n.Sel.Name == siteRef && binding[x.Name] == sitePath {
				sels++
				selIdent[n.Sel] = true
			}
		case *ast.Ident:
			if n.Name == siteRef && !selIdent[n] {
				bare++
			}
		}
		return true
	})
	if sels != 1 || bare != 0 {
		return "reference-binding", fmt.Sprintf("%d selectors on the import of %s and %d unqualified occurrences of %s (expected 1 and 0)", sels, sitePath, bare, siteRef)
	}
	return "", ""
}

func siteUnits(prop string) []string {
	var u []string
	for _, t := range siteTemplates() {
		u = append(u, "reference-everywhere/"+t.Name)
	}
	return u
}

// siteRun explores one template: every use-position identifier slot.
func siteRun(ctx *core.Ctx, prop string, ti int) {
	t := siteTemplates()[ti]
	_, slots := siteSlots(t)
	kinds := map[string]bool{}
	for i, s := range slots {
		cs := siteCase{Everywhere: prop, Template: t.Name, Site: i}
		ctx.State(fmt.Sprintf("everywhere|%s|%d", t.Name, i), true)
		ctx.R.Transitions++
		ctx.Eval(cs, siteCheck(cs, ctx))
		kinds[typeName(s.Parent)+"."+s.Field] = true
	}
	for k := range kinds {
		ctx.State("everywhere-position-kind|"+k, true)
	}
}

// siteDecode recognises a recorded reference-everywhere case.
func siteDecode(c core.Case) (siteCase, bool) {
	var cs siteCase
	if json.Unmarshal(c, &cs) != nil || cs.Everywhere == "" {
		return cs, false
	}
	return cs, true
}

func siteCheck(cs siteCase, ctx *core.Ctx) core.Outcome {
	count := func(name string) {
		if ctx != nil {
			ctx.Count(name, 1)
		}
	}
	t, ok := gen.Find(siteTemplates(), cs.Template)
	if !ok {
		return core.Outcome{Key: "engine", Desc: "unknown template " + cs.Template}
	}
	f, slots := siteSlots(t)
	if cs.Site >= len(slots) {
		return core.Outcome{Key: "engine", Desc: "site out of range"}
	}
	s := slots[cs.Site]
	where := fmt.Sprintf("template %s, identifier %q in %s", t.Name, s.Get().(*dst.Ident).Name, s.String())
	fail := func(key, f string, a ...interface{}) core.Outcome {
		return core.Outcome{Key: "everywhere:" + key + ":" + typeName(s.Parent) + "." + s.Field, Desc: where + "\n" + fmt.Sprintf(f, a...)}
	}
	restore := func(f *dst.File) (string, string) {
		var buf bytes.Buffer
		var err error
		if p := guard(func() {
			err = decorator.NewRestorerWithImports("example.com/local", simple.New(siteNames)).Fprint(&buf, f)
		}); p != "" {
			return "", "panic: " + p
		}
		if err != nil {
			return "", "error: " + err.Error()
		}
		return buf.String(), ""
	}
	switch cs.Everywhere {
	case "C07":
		old := s.Get().(*dst.Ident)
		id := &dst.Ident{Name: siteRef, Path: sitePath}
		id.Decs = old.Decs
		s.Set(id)
		out, bad := restore(f)
		if bad != "" {
			return fail("restore-fails", "import-managed restore of the tree with %s.%s in that position: %s", sitePath, siteRef, bad)
		}
		if k, d := siteJudge(out, []string{sitePath}); k != "" {
			if k == "output-does-not-parse" {
				if _, ok := siteSource(t, cs.Site); !ok {
					count("everywhere: position where a qualified identifier is not valid syntax")
					return core.Outcome{OK: true}
				}
			}
			return fail(k, "%s\noutput:\n%s", d, out)
		}
		return core.Outcome{OK: true}
	case "C08", "C10":
		src, ok := siteSource(t, cs.Site)
		if !ok {
			count("everywhere: position where a qualified identifier is not valid syntax")
			return core.Outcome{OK: true}
		}
		dec := decorator.NewDecoratorWithImports(token.NewFileSet(), "example.com/local", goast.WithResolver(simple.New(siteNames)))
		var df *dst.File
		var err error
		if p := guard(func() { df, err = dec.Parse(src) }); p != "" || err != nil {
			return fail("decorate-fails", "panic %q error %v\nsource:\n%s", p, err, src)
		}
		var withPath []*dst.Ident
		for _, n := range allNodes(df) {
			if id, ok := n.(*dst.Ident); ok && id.Path != "" {
				withPath = append(withPath, id)
			}
		}
		if len(withPath) != 1 || withPath[0].Name != siteRef || withPath[0].Path != sitePath {
			var l []string
			for _, id := range withPath {
				l = append(l, id.Path+"."+id.Name)
			}
			return fail("decorated-paths", "after decoration with the syntax-based resolver the identifiers carrying a path are %v, expected exactly [%s.%s]\nsource:\n%s", l, sitePath, siteRef, src)
		}
		if cs.Everywhere == "C08" {
			if plain, err := roundTrip(src); err != nil || plain != src {
				count("everywhere: plain round trip not byte-exact (C01's business)")
				return core.Outcome{OK: true}
			}
			out, bad := restore(df)
			if bad != "" {
				return fail("restore-fails", "%s\nsource:\n%s", bad, src)
			}
			if out != src {
				return fail("bytes-differ", "decorate with import resolution + import-managed restore changed an unedited file\n%s", diffDesc(src, out))
			}
			return core.Outcome{OK: true}
		}
		// C10: move the declaration that holds the reference into an empty file of another package
		var moved dst.Decl
		for _, d := range df.Decls {
			for _, n := range allNodes(d) {
				if n == dst.Node(withPath[0]) {
					moved = d
				}
			}
		}
		if moved == nil {
			return fail("engine", "reference not inside a declaration")
		}
		if gd, ok := moved.(*dst.GenDecl); ok && gd.Tok == token.IMPORT {
			return core.Outcome{OK: true}
		}
		for _, clone := range []bool{false, true} {
			m := moved
			if clone {
				m = dst.Clone(moved).(dst.Decl)
			}
			tgt := &dst.File{Name: dst.NewIdent("target"), Decls: []dst.Decl{m}}
			out, bad := restore(tgt)
			if bad != "" {
				return fail("restore-of-target-fails", "%s\nsource:\n%s", bad, src)
			}
			if k, d := siteJudge(out, []string{sitePath}); k != "" {
				return fail("moved:"+k, "the declaration moved (clone: %v) into an empty file of another package: %s\ntarget as printed:\n%s", clone, d, out)
			}
		}
		return core.Outcome{OK: true}
	}
	return core.Outcome{Key: "engine", Desc: "unknown mode"}
}
