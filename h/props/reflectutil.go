package props

import (
	"fmt"
	"reflect"
	"sort"
	"strings"

	"github.com/dave/dst"
)

var (
	decorationsType = reflect.TypeOf(dst.Decorations{})
	nodeDecsType    = reflect.TypeOf(dst.NodeDecs{})
	objectPtrType   = reflect.TypeOf((*dst.Object)(nil))
	scopePtrType    = reflect.TypeOf((*dst.Scope)(nil))
)

// slot is a place in a tree that holds a node: a field of a parent, or an element of a slice field.
type slot struct {
	Parent dst.Node
	Field  string
	Index  int // -1 for non-slice fields
}

func (s slot) String() string {
	t := reflect.TypeOf(s.Parent).Elem().Name()
	if s.Index >= 0 {
		return fmt.Sprintf("%s.%s[%d]", t, s.Field, s.Index)
	}
	return fmt.Sprintf("%s.%s", t, s.Field)
}

func (s slot) value() reflect.Value {
	fv := reflect.ValueOf(s.Parent).Elem().FieldByName(s.Field)
	if s.Index >= 0 {
		return fv.Index(s.Index)
	}
	return fv
}

func (s slot) Get() dst.Node {
	v := s.value()
	if v.IsNil() {
		return nil
	}
	return v.Interface().(dst.Node)
}

func (s slot) Set(n dst.Node) { s.value().Set(reflect.ValueOf(n)) }

// Accepts reports whether the slot's static type can hold n.
func (s slot) Accepts(n dst.Node) bool { return reflect.TypeOf(n).AssignableTo(s.value().Type()) }

// nodeSlots lists the child slots of n (syntactic children only), in field order.
func nodeSlots(n dst.Node) []slot {
	var out []slot
	if _, ok := n.(*dst.Package); ok {
		return nil
	}
	v := reflect.ValueOf(n).Elem()
	t := v.Type()
	for i := 0; i < t.NumField(); i++ {
		f := t.Field(i)
		if t.Name() == "File" && (f.Name == "Imports" || f.Name == "Unresolved") {
			continue
		}
		switch {
		case f.Type.Implements(nodeIface):
			out = append(out, slot{n, f.Name, -1})
		case f.Type.Kind() == reflect.Slice && f.Type.Elem().Implements(nodeIface):
			for j := 0; j < v.Field(i).Len(); j++ {
				out = append(out, slot{n, f.Name, j})
			}
		}
	}
	return out
}

// allSlots lists every non-nil child slot in the tree in pre-order.
func allSlots(root dst.Node) []slot {
	var out []slot
	var rec func(n dst.Node)
	rec = func(n dst.Node) {
		for _, s := range nodeSlots(n) {
			c := s.Get()
			if c == nil {
				continue
			}
			out = append(out, s)
			rec(c)
		}
	}
	rec(root)
	return out
}

// allNodes lists every node in pre-order (root first).
func allNodes(root dst.Node) []dst.Node {
	out := []dst.Node{root}
	for _, s := range allSlots(root) {
		out = append(out, s.Get())
	}
	return out
}

func typeName(n dst.Node) string { return reflect.TypeOf(n).Elem().Name() }

// decPoint is one named decoration list of a node.
type decPoint struct {
	Name string
	List *dst.Decorations
}

// decPoints returns the decoration lists of n in declaration order of its Decs struct: Start, the
// node-specific points, End (NodeDecs is embedded first, so Start/End are split around the rest).
func decPoints(n dst.Node) []decPoint {
	if _, ok := n.(*dst.Package); ok {
		return nil
	}
	decs := reflect.ValueOf(n).Elem().FieldByName("Decs")
	var start, end *dst.Decorations
	var mid []decPoint
	for i := 0; i < decs.NumField(); i++ {
		f := decs.Type().Field(i)
		switch f.Type {
		case nodeDecsType:
			nd := decs.Field(i).Addr().Interface().(*dst.NodeDecs)
			start, end = &nd.Start, &nd.End
		case decorationsType:
			mid = append(mid, decPoint{f.Name, decs.Field(i).Addr().Interface().(*dst.Decorations)})
		}
	}
	out := []decPoint{{"Start", start}}
	out = append(out, mid...)
	return append(out, decPoint{"End", end})
}

// fillDecorations appends a unique block comment to every decoration point of every node.
func fillDecorations(root dst.Node, prefix string) int {
	n := 0
	for _, nd := range allNodes(root) {
		for _, p := range decPoints(nd) {
			n++
			p.List.Append(fmt.Sprintf("/*%s%d*/", prefix, n))
		}
	}
	return n
}

// deepCompare walks original and clone in lockstep and returns the first difference ("" = equal).
// wantNilObj: Object/Scope links must be nil in b.
func deepCompare(a, b reflect.Value, path string, wantNilObj bool) string {
	if a.Type() != b.Type() {
		return fmt.Sprintf("%s: type %s vs %s", path, a.Type(), b.Type())
	}
	switch a.Kind() {
	case reflect.Ptr, reflect.Interface:
		if a.Type() == objectPtrType || a.Type() == scopePtrType {
			if wantNilObj {
				if !b.IsNil() {
					return path + ": object/scope link not dropped by Clone"
				}
				return ""
			}
			if a.IsNil() != b.IsNil() {
				return path + ": object/scope link nil-ness differs"
			}
			return ""
		}
		if a.IsNil() || b.IsNil() {
			if a.IsNil() != b.IsNil() {
				return fmt.Sprintf("%s: nil-ness differs (original nil=%v, copy nil=%v)", path, a.IsNil(), b.IsNil())
			}
			return ""
		}
		if a.Kind() == reflect.Interface {
			if a.Elem().Type() != b.Elem().Type() {
				return fmt.Sprintf("%s: dynamic type %s vs %s", path, a.Elem().Type(), b.Elem().Type())
			}
			return deepCompare(a.Elem(), b.Elem(), path, wantNilObj)
		}
		return deepCompare(a.Elem(), b.Elem(), path, wantNilObj)
	case reflect.Struct:
		for i := 0; i < a.NumField(); i++ {
			if d := deepCompare(a.Field(i), b.Field(i), path+"."+a.Type().Field(i).Name, wantNilObj); d != "" {
				return d
			}
		}
		return ""
	case reflect.Slice:
		if a.Len() != b.Len() {
			return fmt.Sprintf("%s: length %d vs %d", path, a.Len(), b.Len())
		}
		for i := 0; i < a.Len(); i++ {
			if d := deepCompare(a.Index(i), b.Index(i), fmt.Sprintf("%s[%d]", path, i), wantNilObj); d != "" {
				return d
			}
		}
		return ""
	case reflect.Map:
		if a.Len() != b.Len() {
			return fmt.Sprintf("%s: map length %d vs %d", path, a.Len(), b.Len())
		}
		for _, k := range sortedMapKeys(a) {
			bv := b.MapIndex(k)
			if !bv.IsValid() {
				return fmt.Sprintf("%s: key %v missing in the copy", path, k)
			}
			if d := deepCompare(a.MapIndex(k), bv, fmt.Sprintf("%s{%v}", path, k), wantNilObj); d != "" {
				return d
			}
		}
		return ""
	default:
		if a.Interface() != b.Interface() {
			return fmt.Sprintf("%s: %v vs %v", path, a.Interface(), b.Interface())
		}
		return ""
	}
}

// storage collects the addresses of all mutable storage reachable from v: pointed-to structs and
// slice backing arrays (cap > 0). Object/Scope links are not followed.
func storage(v reflect.Value, path string, out map[uintptr]string) {
	switch v.Kind() {
	case reflect.Ptr:
		if v.IsNil() || v.Type() == objectPtrType || v.Type() == scopePtrType {
			return
		}
		if _, seen := out[v.Pointer()]; seen {
			return
		}
		out[v.Pointer()] = path
		storage(v.Elem(), path, out)
	case reflect.Interface:
		if !v.IsNil() {
			storage(v.Elem(), path, out)
		}
	case reflect.Struct:
		for i := 0; i < v.NumField(); i++ {
			storage(v.Field(i), path+"."+v.Type().Field(i).Name, out)
		}
	case reflect.Slice:
		if v.Cap() > 0 {
			out[v.Pointer()] = path + "[]"
		}
		for i := 0; i < v.Len(); i++ {
			storage(v.Index(i), fmt.Sprintf("%s[%d]", path, i), out)
		}
	case reflect.Map:
		if !v.IsNil() {
			out[v.Pointer()] = path + "{}"
			for _, k := range sortedMapKeys(v) {
				storage(v.MapIndex(k), fmt.Sprintf("%s{%v}", path, k), out)
			}
		}
	}
}

func sortedMapKeys(v reflect.Value) []reflect.Value {
	keys := v.MapKeys()
	sort.Slice(keys, func(i, j int) bool { return fmt.Sprint(keys[i]) < fmt.Sprint(keys[j]) })
	return keys
}

func trimDst(s string) string { return strings.ReplaceAll(s, "*dst.", "") }
