package props

import (
	"fmt"
	"go/ast"
	"go/parser"
	"go/token"
	"os"
	"reflect"
	"sort"

	"verif/core"
	"verif/gen"
)

func init() { core.SelfCheck = selfCheck }

// selfCheck verifies the corpus: every template is gofmt-canonical, and every concrete go/ast node
// type (except Bad*, Package, Comment*) occurs; prints the coverage so vacuity is visible.
func selfCheck() int {
	seen := map[string]int{}
	bad := 0
	for _, file := range []string{"templates.txt", "imports.txt"} {
		for _, t := range gen.Load(file) {
			c, ok := gen.Canonical(t.Src)
			if !ok || c != t.Src {
				fmt.Fprintf(os.Stderr, "selfcheck: template %s/%s is not gofmt-canonical\n", file, t.Name)
				bad++
				continue
			}
			f, err := parser.ParseFile(token.NewFileSet(), "", t.Src, parser.ParseComments)
			if err != nil {
				bad++
				continue
			}
			ast.Inspect(f, func(n ast.Node) bool {
				if n != nil {
					seen[reflect.TypeOf(n).Elem().Name()]++
				}
				return true
			})
		}
	}
	want := []string{"ArrayType", "AssignStmt", "BasicLit", "BinaryExpr", "BlockStmt", "BranchStmt", "CallExpr", "CaseClause", "ChanType", "CommClause",
		"CompositeLit", "DeclStmt", "DeferStmt", "Ellipsis", "EmptyStmt", "ExprStmt", "Field", "FieldList", "File", "ForStmt", "FuncDecl", "FuncLit", "FuncType",
		"GenDecl", "GoStmt", "Ident", "IfStmt", "ImportSpec", "IncDecStmt", "IndexExpr", "IndexListExpr", "InterfaceType", "KeyValueExpr", "LabeledStmt", "MapType",
		"ParenExpr", "RangeStmt", "ReturnStmt", "SelectStmt", "SelectorExpr", "SendStmt", "SliceExpr", "StarExpr", "StructType", "SwitchStmt", "TypeAssertExpr",
		"TypeSpec", "TypeSwitchStmt", "UnaryExpr", "ValueSpec"}
	sort.Strings(want)
	for _, w := range want {
		if seen[w] == 0 {
			fmt.Fprintf(os.Stderr, "selfcheck: node type %s does not occur in the corpus\n", w)
			bad++
		}
	}
	fmt.Printf("selfcheck: %d templates, %d node types covered, %d problems\n", len(gen.Templates()), len(seen), bad)
	if bad > 0 {
		return 2
	}
	return 0
}
