// Command instr instruments the current dave/dst sources for the controlled scheduler (E-SCHED):
// it type-loads the packages of the module in <repo>, rewrites copies of their files and writes a
// go build -overlay file that also injects the virtual package github.com/dave/dst/vsched.
//
//	instr -repo /repo -out <dir> -vsched <dir with vsched.go>
//
// Rewrites (generic AST transformations; nothing is specific to today's sources):
//  1. import "sync" -> the vsched shim (same API) in every instrumented file;
//  2. a vsched.Touch call before every statement that reads or writes a package-level variable of
//     a dst package, or a field / map element reached through the receiver of a method of a type
//     declared under decorator/resolver/ (the objects goroutines may share);
//  3. for ... range <map> -> range over vsched.MapKeys(<map>), whose order the explorer chooses.
package main

import (
	"bytes"
	"encoding/json"
	"flag"
	"fmt"
	"go/ast"
	"go/format"
	"go/token"
	"go/types"
	"os"
	"path/filepath"
	"sort"
	"strconv"
	"strings"

	"golang.org/x/tools/go/packages"
)

const vschedPath = "github.com/dave/dst/vsched"

type stats struct {
	Files      int            `json:"files"`
	SyncShims  int            `json:"sync_imports_replaced"`
	Touches    int            `json:"touch_sites"`
	MapRanges  int            `json:"map_ranges_rewritten"`
	Skipped    []string       `json:"map_ranges_skipped"`
	TouchNames map[string]int `json:"touch_names"`
	RangeSites []string       `json:"map_range_sites"`
	Globals    []string       `json:"package_level_variables_registered"`
	GoStmts    int            `json:"go_statements_rewritten"`
	SyncPoints int            `json:"fileset_method_calls_hooked"`
}

func main() {
	repo := flag.String("repo", "/repo", "module root")
	out := flag.String("out", "", "output directory")
	vs := flag.String("vsched", "", "directory holding vsched.go")
	flag.Parse()
	if *out == "" || *vs == "" {
		fmt.Fprintln(os.Stderr, "usage: instr -repo DIR -out DIR -vsched DIR")
		os.Exit(2)
	}
	cfg := &packages.Config{
		Mode: packages.NeedName | packages.NeedFiles | packages.NeedCompiledGoFiles | packages.NeedSyntax | packages.NeedTypes | packages.NeedTypesInfo | packages.NeedImports | packages.NeedDeps,
		Dir:  *repo,
		Env:  append(os.Environ(), "GOFLAGS=-mod=mod", "GOPROXY=off", "GOSUMDB=off", "GOTOOLCHAIN=local"),
	}
	pkgs, err := packages.Load(cfg, "./...")
	if err != nil {
		fmt.Fprintln(os.Stderr, "instr: load:", err)
		os.Exit(2)
	}
	st := &stats{TouchNames: map[string]int{}}
	overlay := map[string]string{}
	for _, p := range pkgs {
		if strings.Contains(p.PkgPath, "/gendst") || len(p.Errors) > 0 && len(p.Syntax) == 0 {
			continue
		}
		for _, e := range p.Errors {
			fmt.Fprintf(os.Stderr, "instr: %s: %v\n", p.PkgPath, e)
		}
		if len(p.Errors) > 0 {
			os.Exit(2)
		}
		for i, f := range p.Syntax {
			name := p.CompiledGoFiles[i]
			if strings.HasSuffix(name, "_test.go") {
				continue
			}
			changed := instrumentFile(p, f, st)
			if !changed {
				continue
			}
			var buf bytes.Buffer
			if err := format.Node(&buf, p.Fset, f); err != nil {
				fmt.Fprintf(os.Stderr, "instr: print %s: %v\n", name, err)
				os.Exit(2)
			}
			rel, _ := filepath.Rel(*repo, name)
			dst := filepath.Join(*out, "src", rel)
			os.MkdirAll(filepath.Dir(dst), 0o755)
			if err := os.WriteFile(dst, buf.Bytes(), 0o644); err != nil {
				fmt.Fprintln(os.Stderr, "instr:", err)
				os.Exit(2)
			}
			overlay[name] = dst
			st.Files++
		}
	}
	overlay[filepath.Join(*repo, "vsched", "vsched.go")] = filepath.Join(*vs, "vsched.go")
	b, _ := json.MarshalIndent(map[string]interface{}{"Replace": overlay}, "", " ")
	if err := os.WriteFile(filepath.Join(*out, "overlay.json"), b, 0o644); err != nil {
		fmt.Fprintln(os.Stderr, "instr:", err)
		os.Exit(2)
	}
	sort.Strings(st.RangeSites)
	sort.Strings(st.Globals)
	sb, _ := json.MarshalIndent(st, "", " ")
	os.WriteFile(filepath.Join(*out, "stats.json"), sb, 0o644)
	fmt.Printf("instr: %d files, %d sync imports, %d touch sites, %d map ranges (%d skipped)\n", st.Files, st.SyncShims, st.Touches, st.MapRanges, len(st.Skipped))
}

func isDstPkg(p *types.Package) bool {
	return p != nil && strings.HasPrefix(p.Path(), "github.com/dave/dst") && p.Path() != vschedPath
}

func isResolverPkg(p *types.Package) bool {
	return p != nil && strings.Contains(p.Path(), "/decorator/resolver")
}

func isSyncType(t types.Type) bool {
	for {
		if pt, ok := t.(*types.Pointer); ok {
			t = pt.Elem()
			continue
		}
		break
	}
	if n, ok := t.(*types.Named); ok && n.Obj().Pkg() != nil {
		pp := n.Obj().Pkg().Path()
		return pp == "sync" || pp == "sync/atomic" || pp == vschedPath
	}
	return false
}

type touch struct {
	expr  ast.Expr // argument identifying the location
	write bool
	name  string
	sync  bool // a vsched.SyncPoint (operation on an internally synchronised object) instead of a Touch
}

func instrumentFile(p *packages.Package, f *ast.File, st *stats) bool {
	changed := false
	needVsched := false
	var regs []ast.Decl

	// 1. sync import
	for _, is := range f.Imports {
		if is.Path.Value == `"sync"` {
			is.Path.Value = strconv.Quote(vschedPath)
			if is.Name == nil {
				is.Name = ast.NewIdent("sync")
			}
			st.SyncShims++
			changed = true
		}
	}

	info := p.TypesInfo
	// parents and enclosing list statements
	type frame struct{ n ast.Node }
	var stack []ast.Node
	listStmtOf := func() ast.Stmt {
		// nearest ancestor statement that is an element of a statement list
		for i := len(stack) - 1; i > 0; i-- {
			s, ok := stack[i].(ast.Stmt)
			if !ok {
				continue
			}
			switch stack[i-1].(type) {
			case *ast.BlockStmt, *ast.CaseClause, *ast.CommClause:
				return s
			}
		}
		return nil
	}
	inserts := map[ast.Stmt][]touch{}
	seen := map[ast.Stmt]map[string]bool{}
	add := func(s ast.Stmt, t touch) {
		if s == nil {
			return
		}
		key := t.name + fmt.Sprint(t.write, t.sync)
		if seen[s] == nil {
			seen[s] = map[string]bool{}
		}
		if seen[s][key] {
			return
		}
		seen[s][key] = true
		inserts[s] = append(inserts[s], t)
	}
	// is expression e (possibly under an index) assigned to?
	isWritten := func(e ast.Expr) bool {
		for i := len(stack) - 1; i >= 0; i-- {
			switch x := stack[i].(type) {
			case *ast.IndexExpr:
				if x.X == e {
					e = x
					continue
				}
				return false
			case *ast.ParenExpr:
				e = x
				continue
			case *ast.AssignStmt:
				for _, l := range x.Lhs {
					if l == e {
						return true
					}
				}
				return false
			case *ast.IncDecStmt:
				return x.X == e
			case *ast.UnaryExpr:
				return x.Op == token.AND && x.X == e // address taken: conservatively a write
			default:
				if stack[i] == e {
					continue
				}
				return false
			}
		}
		return false
	}

	var recv types.Object
	var recvType string
	var ranges []*ast.RangeStmt
	ast.Inspect(f, func(n ast.Node) bool {
		if n == nil {
			top := stack[len(stack)-1]
			if fd, ok := top.(*ast.FuncDecl); ok && fd.Recv != nil {
				recv = nil
			}
			stack = stack[:len(stack)-1]
			return true
		}
		stack = append(stack, n)
		switch x := n.(type) {
		case *ast.FuncDecl:
			recv = nil
			if x.Recv != nil && len(x.Recv.List) == 1 && len(x.Recv.List[0].Names) == 1 {
				obj := info.Defs[x.Recv.List[0].Names[0]]
				if obj != nil {
					t := obj.Type()
					if pt, ok := t.(*types.Pointer); ok {
						t = pt.Elem()
					}
					if nt, ok := t.(*types.Named); ok && isResolverPkg(nt.Obj().Pkg()) {
						recv = obj
						recvType = pkgShort(nt.Obj().Pkg()) + "." + nt.Obj().Name()
					}
				}
			}
		case *ast.RangeStmt:
			if tv, ok := info.Types[x.X]; ok {
				if _, isMap := tv.Type.Underlying().(*types.Map); isMap {
					ranges = append(ranges, x)
				}
			}
		case *ast.SelectorExpr:
			// receiver field
			if id, ok := x.X.(*ast.Ident); ok && recv != nil && info.Uses[id] == recv {
				if sel := info.Selections[x]; sel != nil && sel.Kind() == types.FieldVal && !isSyncType(sel.Type()) {
					stack = stack[:len(stack)-1]
					w := isWritten(x)
					stack = append(stack, n)
					add(listStmtOf(), touch{expr: &ast.UnaryExpr{Op: token.AND, X: x}, write: w, name: recvType + "." + x.Sel.Name})
				}
			}
			// qualified package-level variable of a dst package
			if id, ok := x.X.(*ast.Ident); ok {
				if _, isPkg := info.Uses[id].(*types.PkgName); isPkg {
					if v, ok := info.Uses[x.Sel].(*types.Var); ok && isDstPkg(v.Pkg()) && v.Parent() == v.Pkg().Scope() {
						stack = stack[:len(stack)-1]
						w := isWritten(x)
						stack = append(stack, n)
						add(listStmtOf(), touch{expr: &ast.UnaryExpr{Op: token.AND, X: x}, write: w, name: pkgShort(v.Pkg()) + "." + v.Name()})
					}
				}
			}
		case *ast.CallExpr:
			// a method call on a *token.FileSet: an internally synchronised object that may be shared
			// through a package-level variable (vsched decides at run time whether this one is)
			if se, ok := x.Fun.(*ast.SelectorExpr); ok && simpleExpr(se.X) {
				if tv, ok := info.Types[se.X]; ok && tv.Type.String() == "*go/token.FileSet" {
					add(listStmtOf(), touch{expr: se.X, sync: true, name: "token.FileSet." + se.Sel.Name})
				}
			}
		case *ast.Ident:
			obj := info.Uses[x]
			if obj == nil {
				break
			}
			// map-typed receiver used directly: r[key]
			if recv != nil && obj == recv {
				if _, isMap := obj.Type().Underlying().(*types.Map); isMap && len(stack) >= 2 {
					if ix, ok := stack[len(stack)-2].(*ast.IndexExpr); ok && ix.X == x {
						stack = stack[:len(stack)-1]
						w := isWritten(x)
						stack = append(stack, n)
						add(listStmtOf(), touch{expr: ast.NewIdent(x.Name), write: w, name: recvType})
					}
				}
			}
			// package-level variable of this (dst) package
			if v, ok := obj.(*types.Var); ok && isDstPkg(v.Pkg()) && v.Parent() == v.Pkg().Scope() && !v.IsField() {
				if len(stack) >= 2 {
					if se, ok := stack[len(stack)-2].(*ast.SelectorExpr); ok && se.Sel == x {
						break // handled as qualified
					}
				}
				if isSyncType(v.Type()) {
					break
				}
				stack = stack[:len(stack)-1]
				w := isWritten(x)
				stack = append(stack, n)
				add(listStmtOf(), touch{expr: &ast.UnaryExpr{Op: token.AND, X: ast.NewIdent(x.Name)}, write: w, name: pkgShort(v.Pkg()) + "." + v.Name()})
			}
		}
		return true
	})

	// 3. map ranges (before inserting touches so that statement identity is stable)
	for _, rs := range ranges {
		pos := p.Fset.Position(rs.Pos())
		site := fmt.Sprintf("%s:%d", filepath.Base(pos.Filename), pos.Line)
		if !simpleExpr(rs.X) {
			st.Skipped = append(st.Skipped, site)
			continue
		}
		rewriteRange(rs, site)
		st.MapRanges++
		st.RangeSites = append(st.RangeSites, pkgShort(p.Types)+"/"+site)
		needVsched = true
		changed = true
	}

	// 2. insert touches
	if len(inserts) > 0 {
		ast.Inspect(f, func(n ast.Node) bool {
			var list *[]ast.Stmt
			switch x := n.(type) {
			case *ast.BlockStmt:
				list = &x.List
			case *ast.CaseClause:
				list = &x.Body
			case *ast.CommClause:
				list = &x.Body
			}
			if list == nil {
				return true
			}
			var out []ast.Stmt
			for _, s := range *list {
				for _, t := range inserts[s] {
					st.Touches++
					st.TouchNames[t.name]++
					if t.sync {
						st.SyncPoints++
						out = append(out, &ast.ExprStmt{X: &ast.CallExpr{
							Fun:  &ast.SelectorExpr{X: ast.NewIdent("vsched_"), Sel: ast.NewIdent("SyncPoint")},
							Args: []ast.Expr{t.expr, &ast.BasicLit{Kind: token.STRING, Value: strconv.Quote(t.name)}},
						}})
						continue
					}
					out = append(out, &ast.ExprStmt{X: &ast.CallExpr{
						Fun:  &ast.SelectorExpr{X: ast.NewIdent("vsched_"), Sel: ast.NewIdent("Touch")},
						Args: []ast.Expr{t.expr, ast.NewIdent(fmt.Sprint(t.write)), &ast.BasicLit{Kind: token.STRING, Value: strconv.Quote(t.name)}},
					}})
				}
				out = append(out, s)
			}
			*list = out
			return true
		})
		needVsched = true
		changed = true
	}

	// 5. go statements: the new goroutine becomes a thread of the controlled scheduler. The function
	// value and the non-constant arguments are evaluated where the go statement stands, as Go does.
	goN := 0
	ast.Inspect(f, func(n ast.Node) bool {
		var list *[]ast.Stmt
		switch x := n.(type) {
		case *ast.BlockStmt:
			list = &x.List
		case *ast.CaseClause:
			list = &x.Body
		case *ast.CommClause:
			list = &x.Body
		}
		if list == nil {
			return true
		}
		for i, s := range *list {
			gs, ok := s.(*ast.GoStmt)
			if !ok {
				continue
			}
			goN++
			call := gs.Call
			var pre []ast.Stmt
			fn := ast.NewIdent(fmt.Sprintf("vsGo%dFn", goN))
			pre = append(pre, &ast.AssignStmt{Lhs: []ast.Expr{fn}, Tok: token.DEFINE, Rhs: []ast.Expr{call.Fun}})
			var args []ast.Expr
			for ai, a := range call.Args {
				if tv, ok := info.Types[a]; ok && tv.Value != nil {
					args = append(args, a) // constants need no snapshot (and keep their untyped nature)
					continue
				}
				tmp := ast.NewIdent(fmt.Sprintf("vsGo%dA%d", goN, ai))
				pre = append(pre, &ast.AssignStmt{Lhs: []ast.Expr{tmp}, Tok: token.DEFINE, Rhs: []ast.Expr{a}})
				args = append(args, tmp)
			}
			inner := &ast.CallExpr{Fun: fn, Args: args, Ellipsis: call.Ellipsis}
			spawn := &ast.ExprStmt{X: &ast.CallExpr{
				Fun:  &ast.SelectorExpr{X: ast.NewIdent("vsched_"), Sel: ast.NewIdent("Spawn")},
				Args: []ast.Expr{&ast.FuncLit{Type: &ast.FuncType{Params: &ast.FieldList{}}, Body: &ast.BlockStmt{List: []ast.Stmt{&ast.ExprStmt{X: inner}}}}},
			}}
			(*list)[i] = &ast.BlockStmt{List: append(pre, spawn)}
			st.GoStmts++
			needVsched = true
			changed = true
		}
		return true
	})

	// 4. package-level variables: registered so that every execution can start from their initial values
	for _, dcl := range f.Decls {
		gd, ok := dcl.(*ast.GenDecl)
		if !ok || gd.Tok != token.VAR {
			continue
		}
		for _, s := range gd.Specs {
			for _, nm := range s.(*ast.ValueSpec).Names {
				v, ok := info.Defs[nm].(*types.Var)
				if !ok || nm.Name == "_" || isSyncType(v.Type()) || !(isDstPkg(v.Pkg()) || isResolverPkg(v.Pkg())) {
					continue
				}
				name := pkgShort(v.Pkg()) + "." + nm.Name
				regs = append(regs, &ast.GenDecl{Tok: token.VAR, Specs: []ast.Spec{&ast.ValueSpec{
					Names: []*ast.Ident{ast.NewIdent("_")},
					Values: []ast.Expr{&ast.CallExpr{
						Fun:  &ast.SelectorExpr{X: ast.NewIdent("vsched_"), Sel: ast.NewIdent("RegisterGlobal")},
						Args: []ast.Expr{&ast.BasicLit{Kind: token.STRING, Value: strconv.Quote(name)}, &ast.UnaryExpr{Op: token.AND, X: ast.NewIdent(nm.Name)}},
					}},
				}}})
				st.Globals = append(st.Globals, name)
			}
		}
	}
	if len(regs) > 0 {
		f.Decls = append(f.Decls, regs...)
		needVsched = true
		changed = true
	}

	if needVsched {
		spec := &ast.ImportSpec{Name: ast.NewIdent("vsched_"), Path: &ast.BasicLit{Kind: token.STRING, Value: strconv.Quote(vschedPath)}}
		gd := &ast.GenDecl{Tok: token.IMPORT, Specs: []ast.Spec{spec}}
		// after the existing import declarations
		i := 0
		for i < len(f.Decls) {
			if g, ok := f.Decls[i].(*ast.GenDecl); ok && g.Tok == token.IMPORT {
				i++
				continue
			}
			break
		}
		f.Decls = append(f.Decls[:i:i], append([]ast.Decl{gd}, f.Decls[i:]...)...)
		f.Imports = append(f.Imports, spec)
	}
	// comments carry positions that no longer match after insertions; they are irrelevant for a build
	if changed {
		f.Comments = nil
		f.Doc = nil
		stripDocs(f)
	}
	return changed
}

func stripDocs(f *ast.File) {
	ast.Inspect(f, func(n ast.Node) bool {
		switch x := n.(type) {
		case *ast.FuncDecl:
			x.Doc = keepDirectives(x.Doc)
		case *ast.GenDecl:
			x.Doc = nil
		case *ast.Field:
			x.Doc, x.Comment = nil, nil
		case *ast.ValueSpec:
			x.Doc, x.Comment = nil, nil
		case *ast.TypeSpec:
			x.Doc, x.Comment = nil, nil
		case *ast.ImportSpec:
			x.Doc, x.Comment = nil, nil
		}
		return true
	})
}

func keepDirectives(cg *ast.CommentGroup) *ast.CommentGroup { return nil }

func pkgShort(p *types.Package) string {
	if p == nil {
		return "?"
	}
	return p.Path()[strings.LastIndex(p.Path(), "/")+1:]
}

func simpleExpr(e ast.Expr) bool {
	switch x := e.(type) {
	case *ast.Ident:
		return true
	case *ast.SelectorExpr:
		return simpleExpr(x.X)
	case *ast.ParenExpr:
		return simpleExpr(x.X)
	case *ast.StarExpr:
		return simpleExpr(x.X)
	}
	return false
}

// rewriteRange turns `for k, v := range m { body }` into
// `for _, k := range vsched_.MapKeys(m, site) { v, ok := m[k]; if !ok { continue }; body }`.
func rewriteRange(rs *ast.RangeStmt, site string) {
	m := rs.X
	call := &ast.CallExpr{Fun: &ast.SelectorExpr{X: ast.NewIdent("vsched_"), Sel: ast.NewIdent("MapKeys")}, Args: []ast.Expr{m, &ast.BasicLit{Kind: token.STRING, Value: strconv.Quote(site)}}}
	keyIdent := ast.NewIdent("vschedKey_")
	var pre []ast.Stmt
	isBlank := func(e ast.Expr) bool {
		id, ok := e.(*ast.Ident)
		return e == nil || ok && id.Name == "_"
	}
	define := rs.Tok == token.DEFINE
	if rs.Key != nil && !isBlank(rs.Key) {
		if define {
			keyIdent = rs.Key.(*ast.Ident)
		} else {
			pre = append(pre, &ast.AssignStmt{Lhs: []ast.Expr{rs.Key}, Tok: token.ASSIGN, Rhs: []ast.Expr{ast.NewIdent("vschedKey_")}})
		}
	}
	if rs.Value != nil && !isBlank(rs.Value) {
		okIdent := ast.NewIdent("vschedOK_")
		lookup := &ast.IndexExpr{X: m, Index: ast.NewIdent(keyIdent.Name)}
		if define {
			pre = append(pre, &ast.AssignStmt{Lhs: []ast.Expr{rs.Value, okIdent}, Tok: token.DEFINE, Rhs: []ast.Expr{lookup}})
		} else {
			pre = append(pre,
				&ast.DeclStmt{Decl: &ast.GenDecl{Tok: token.VAR, Specs: []ast.Spec{&ast.ValueSpec{Names: []*ast.Ident{okIdent}, Type: ast.NewIdent("bool")}}}},
				&ast.AssignStmt{Lhs: []ast.Expr{rs.Value, okIdent}, Tok: token.ASSIGN, Rhs: []ast.Expr{lookup}})
		}
		pre = append(pre, &ast.IfStmt{Cond: &ast.UnaryExpr{Op: token.NOT, X: ast.NewIdent("vschedOK_")}, Body: &ast.BlockStmt{List: []ast.Stmt{&ast.BranchStmt{Tok: token.CONTINUE}}}})
	} else {
		// entries deleted during the iteration are skipped, as the runtime does
		lookup := &ast.IndexExpr{X: m, Index: ast.NewIdent(keyIdent.Name)}
		pre = append(pre,
			&ast.IfStmt{
				Init: &ast.AssignStmt{Lhs: []ast.Expr{ast.NewIdent("_"), ast.NewIdent("vschedOK_")}, Tok: token.DEFINE, Rhs: []ast.Expr{lookup}},
				Cond: &ast.UnaryExpr{Op: token.NOT, X: ast.NewIdent("vschedOK_")},
				Body: &ast.BlockStmt{List: []ast.Stmt{&ast.BranchStmt{Tok: token.CONTINUE}}},
			})
	}
	rs.Key = ast.NewIdent("_")
	rs.Value = keyIdent
	rs.Tok = token.DEFINE
	rs.X = call
	rs.Body.List = append(pre, rs.Body.List...)
}
