// Package vsched is injected into the dst module at check time (go build -overlay): a cooperative
// scheduler with drop-in replacements for the sync primitives, an access hook (Touch) for the
// happens-before race detector, and explorer-controlled map iteration order (MapKeys).
//
// Outside an exploration every hook degrades to the ordinary behaviour (real mutexes, no events,
// sorted map order), so one instrumented build serves scheduled and free-running executions.
package vsched

import (
	"fmt"
	"reflect"
	"sort"
	"sync"
	"sync/atomic"
)

// ---------------------------------------------------------------------------------------------
// exploration state

// Chooser decides every nondeterministic step: it returns a value in [0,n). free reports that the
// alternatives are not deviations (a switch forced by a blocked or finished thread).
type Chooser func(n int, free bool) int

type thread struct {
	id      int
	wake    chan struct{}
	done    bool
	pending *Mutex // the lock it is about to take (nil = any other point)
	waitWG  *WaitGroup
	vc      []int
	panicV  interface{}
	spawned bool // started by the library itself (Spawn), not by the harness
}

// vector clocks grow with the number of threads (the library may start goroutines of its own)
func vcAt(vc []int, i int) int {
	if i < len(vc) {
		return vc[i]
	}
	return 0
}

func vcJoin(dst *[]int, src []int) {
	for len(*dst) < len(src) {
		*dst = append(*dst, 0)
	}
	for i, c := range src {
		if c > (*dst)[i] {
			(*dst)[i] = c
		}
	}
}

func (t *thread) tick() {
	for len(t.vc) <= t.id {
		t.vc = append(t.vc, 0)
	}
	t.vc[t.id]++
}

type access struct {
	tid   int
	clock int
}

type shadow struct {
	lastWrite access
	hasWrite  bool
	reads     map[int]int // tid -> clock of last read
	name      string
}

// Run is one controlled execution.
type Run struct {
	choose    Chooser
	threads   []*thread
	cur       *thread
	toSched   chan *thread
	mem       map[uintptr]*shadow
	objClocks map[uintptr][]int // per shared object: clock of the last operation (SyncPoint)
	Races     []string
	Events    []string // order of accesses to shared locations ("t0 W name")
	Points    int
	Preempt   int
	Spawned   int // goroutines the library started itself
	Dead      string
	mapOnly   bool
}

var (
	mu  sync.Mutex
	run atomic.Pointer[Run] // active exploration, nil when inactive
)

// active is lock-free on purpose: the free-running -race pass calls the hooks from many goroutines, and a mutex
// here would order all their accesses (a happens-before edge per hook) and blind the race detector to races between
// two hooked operations. An atomic load of a pointer nobody stores creates no such edge.
func active() *Run {
	return run.Load()
}

// Go runs the bodies as controlled threads under the chooser and returns the finished Run.
func Go(choose Chooser, bodies ...func()) *Run {
	r := &Run{choose: choose, toSched: make(chan *thread), mem: map[uintptr]*shadow{}, objClocks: map[uintptr][]int{}}
	n := len(bodies)
	for i := range bodies {
		t := &thread{id: i, wake: make(chan struct{}), vc: make([]int, n)}
		t.vc[i] = 1
		r.threads = append(r.threads, t)
	}
	run.Store(r)
	defer func() {
		run.Store(nil)
	}()
	for i, b := range bodies {
		r.start(r.threads[i], b)
	}
	// scheduler loop
	var last *thread
	for {
		var enabled []*thread
		alive := 0
		for _, t := range r.threads {
			if t.done {
				continue
			}
			alive++
			if t.pending != nil && t.pending.holder != nil {
				continue
			}
			if t.waitWG != nil && t.waitWG.n > 0 {
				continue
			}
			enabled = append(enabled, t)
		}
		if alive == 0 {
			break
		}
		if len(enabled) == 0 {
			r.Dead = "deadlock: every live thread is blocked"
			break // leaked goroutines stay parked; the run is reported
		}
		// canonical order: the running thread first if still enabled, then ascending ids
		lastEnabled := false
		for i, t := range enabled {
			if t == last {
				enabled[0], enabled[i] = enabled[i], enabled[0]
				sort.Slice(enabled[1:], func(a, b int) bool { return enabled[1+a].id < enabled[1+b].id })
				lastEnabled = true
				break
			}
		}
		c := 0
		if len(enabled) > 1 {
			c = r.choose(len(enabled), !lastEnabled)
			if c != 0 && lastEnabled {
				r.Preempt++
			}
		}
		next := enabled[c]
		r.cur = next
		last = next
		next.wake <- struct{}{}
		<-r.toSched // next reached its next point or finished
	}
	return r
}

// start parks a goroutine for t that runs b when the scheduler first wakes it.
func (r *Run) start(t *thread, b func()) {
	go func() {
		<-t.wake
		defer func() {
			if p := recover(); p != nil {
				t.panicV = p
			}
			t.done = true
			r.toSched <- t
		}()
		b()
	}()
}

// Spawn replaces a go statement of the instrumented library: under the scheduler the new goroutine
// becomes a controlled thread whose clock starts from the spawning thread's (everything the parent
// did so far happens before the child), and the spawn itself is a scheduling point.
func Spawn(f func()) {
	r := active()
	if r == nil || r.mapOnly {
		go f()
		return
	}
	parent := r.cur
	t := &thread{id: len(r.threads), wake: make(chan struct{}), vc: append([]int{}, parent.vc...), spawned: true}
	t.tick()
	parent.tick()
	r.threads = append(r.threads, t)
	r.Spawned++
	r.start(t, f)
	r.point()
}

// Panics returns the panic values of the threads (nil entries for normal termination).
func (r *Run) Panics() []interface{} {
	var out []interface{}
	for _, t := range r.threads {
		out = append(out, t.panicV)
	}
	return out
}

// point is a scheduling point of the running thread.
func (r *Run) point() {
	t := r.cur
	r.Points++
	r.toSched <- t
	<-t.wake
}

// ---------------------------------------------------------------------------------------------
// map-order-only exploration (sequential code)

// WithMapOrders runs f on the calling goroutine with map iteration orders decided by choose.
func WithMapOrders(choose Chooser, f func()) {
	r := &Run{choose: choose, mapOnly: true}
	run.Store(r)
	defer func() {
		run.Store(nil)
	}()
	f()
}

// ---------------------------------------------------------------------------------------------
// access hook and race detection

func ptrOf(p interface{}) uintptr {
	v := reflect.ValueOf(p)
	switch v.Kind() {
	case reflect.Ptr, reflect.Map, reflect.Slice, reflect.Chan, reflect.Func, reflect.UnsafePointer:
		return v.Pointer()
	}
	return 0
}

// ReadOnly names locations that a discovery run never saw written: their reads are recorded for the
// race detector but are not scheduling points. A write to such a name is reported in NewWrites and the
// harness restarts the exploration with the enlarged written set.
var (
	ReadOnly  = map[string]bool{}
	NewWrites = map[string]bool{}
	// Written collects every name written while Discover is set (sequential discovery run).
	Written  = map[string]bool{}
	Seen     = map[string]bool{}
	Discover bool
)

// Touch is called before an access to a shared location (package-level variable, or a field / map
// reached through the receiver of a resolver). p identifies the location (pointer or map value).
func Touch(p interface{}, write bool, name string) {
	if Discover {
		mu.Lock()
		Seen[name] = true
		if write {
			Written[name] = true
		}
		mu.Unlock()
	}
	r := active()
	if r == nil || r.mapOnly {
		return
	}
	if write && ReadOnly[name] {
		NewWrites[name] = true
	}
	if write || !ReadOnly[name] {
		r.point()
	}
	t := r.cur
	addr := ptrOf(p)
	if addr == 0 {
		return
	}
	s := r.mem[addr]
	if s == nil {
		s = &shadow{reads: map[int]int{}, name: name}
		r.mem[addr] = s
	}
	kind := "R"
	if write {
		kind = "W"
	}
	r.Events = append(r.Events, fmt.Sprintf("t%d %s %s", t.id, kind, name))
	// happens-before check (vector clocks): an earlier access a by thread u is ordered before the
	// current one iff a.clock <= t.vc[u]
	if s.hasWrite && s.lastWrite.tid != t.id && s.lastWrite.clock > vcAt(t.vc, s.lastWrite.tid) {
		r.Races = append(r.Races, fmt.Sprintf("%s of %s by t%d is unordered with the write by t%d", map[bool]string{true: "write", false: "read"}[write], name, t.id, s.lastWrite.tid))
	}
	if write {
		for u, c := range s.reads {
			if u != t.id && c > vcAt(t.vc, u) {
				r.Races = append(r.Races, fmt.Sprintf("write of %s by t%d is unordered with the read by t%d", name, t.id, u))
			}
		}
		s.lastWrite, s.hasWrite = access{t.id, vcAt(t.vc, t.id)}, true
		s.reads = map[int]int{}
	} else {
		s.reads[t.id] = vcAt(t.vc, t.id)
	}
}

// ---------------------------------------------------------------------------------------------
// sync shims

type Locker = sync.Locker

// Mutex replaces sync.Mutex.
type Mutex struct {
	real   sync.Mutex
	holder *thread
	vc     []int
}

func (m *Mutex) Lock() {
	r := active()
	if r == nil || r.mapOnly {
		m.real.Lock()
		return
	}
	t := r.cur
	t.pending = m
	r.point() // woken only when the mutex is free
	t.pending = nil
	if m.holder != nil {
		panic("vsched: scheduler woke a thread for a held mutex")
	}
	m.holder = t
	vcJoin(&t.vc, m.vc) // acquire: join the releaser's clock
}

func (m *Mutex) Unlock() {
	r := active()
	if r == nil || r.mapOnly {
		m.real.Unlock()
		return
	}
	t := r.cur
	if m.holder != t {
		panic("vsched: unlock of a mutex not held by this thread")
	}
	m.vc = append([]int{}, t.vc...) // release
	t.tick()
	m.holder = nil
}

func (m *Mutex) TryLock() bool {
	r := active()
	if r == nil || r.mapOnly {
		return m.real.TryLock()
	}
	r.point()
	if m.holder != nil {
		return false
	}
	t := r.cur
	m.holder = t
	vcJoin(&t.vc, m.vc)
	return true
}

// RWMutex is modelled as an exclusive lock (conservative: fewer behaviours, never a false race).
type RWMutex struct{ Mutex }

func (m *RWMutex) RLock()          { m.Lock() }
func (m *RWMutex) RUnlock()        { m.Unlock() }
func (m *RWMutex) RLocker() Locker { return m }

// Once replaces sync.Once.
type Once struct {
	m    Mutex
	done bool
}

func (o *Once) Do(f func()) {
	o.m.Lock()
	defer o.m.Unlock()
	if !o.done {
		defer func() { o.done = true }()
		f()
	}
}

// WaitGroup replaces sync.WaitGroup.
type WaitGroup struct {
	real sync.WaitGroup
	n    int
	vc   []int
}

func (w *WaitGroup) Add(d int) {
	r := active()
	if r == nil || r.mapOnly {
		w.real.Add(d)
		return
	}
	w.n += d
	if d < 0 {
		t := r.cur
		vcJoin(&w.vc, t.vc)
		t.tick()
	}
}

func (w *WaitGroup) Done() { w.Add(-1) }

func (w *WaitGroup) Wait() {
	r := active()
	if r == nil || r.mapOnly {
		w.real.Wait()
		return
	}
	t := r.cur
	t.waitWG = w
	r.point()
	t.waitWG = nil
	vcJoin(&t.vc, w.vc)
}

// Map and Pool are passed through (not used by dst today; a scheduling point per operation).
type Map = sync.Map
type Pool = sync.Pool
type Cond = sync.Cond

func NewCond(l Locker) *Cond { return sync.NewCond(l) }

// ---------------------------------------------------------------------------------------------
// map iteration order

// KeyName renders a map key for canonical ordering. Pointer keys are ordered by a content key
// (Name/Kind fields if present), ties keep the runtime's order.
func keyName(k interface{}) string {
	v := reflect.ValueOf(k)
	switch v.Kind() {
	case reflect.String:
		return v.String()
	case reflect.Int, reflect.Int8, reflect.Int16, reflect.Int32, reflect.Int64:
		return fmt.Sprintf("%020d", v.Int()+(1<<62))
	case reflect.Uint, reflect.Uint8, reflect.Uint16, reflect.Uint32, reflect.Uint64:
		return fmt.Sprintf("%020d", v.Uint())
	case reflect.Bool:
		return fmt.Sprint(v.Bool())
	case reflect.Ptr, reflect.Interface:
		for v.Kind() == reflect.Ptr || v.Kind() == reflect.Interface {
			if v.IsNil() {
				return "<nil>"
			}
			v = v.Elem()
		}
		if v.Kind() == reflect.Struct {
			s := v.Type().Name()
			for _, f := range []string{"Name", "Kind", "Value"} {
				if fv := v.FieldByName(f); fv.IsValid() && fv.CanInterface() {
					if fv.Kind() == reflect.Ptr || fv.Kind() == reflect.Interface {
						if !fv.IsNil() && fv.Elem().Kind() == reflect.Struct {
							if nn := fv.Elem().FieldByName("Name"); nn.IsValid() {
								s += ":" + fmt.Sprint(nn.Interface())
							}
						}
						continue
					}
					s += ":" + fmt.Sprint(fv.Interface())
				}
			}
			return s
		}
		return fmt.Sprint(v.Interface())
	}
	return fmt.Sprint(k)
}

// Sites counts MapKeys calls (for the evidence).
var Sites = map[string]int{}

// MapKeys returns the keys of m in the order the explorer chooses: default sorted; alternatives
// are all permutations for <=3 keys, else reversed order and every rotation.
func MapKeys[K comparable, V any](m map[K]V, site string) []K {
	keys := make([]K, 0, len(m))
	for k := range m {
		keys = append(keys, k)
	}
	names := make([]string, len(keys))
	for i, k := range keys {
		names[i] = keyName(k)
	}
	idx := make([]int, len(keys))
	for i := range idx {
		idx[i] = i
	}
	sort.SliceStable(idx, func(a, b int) bool { return names[idx[a]] < names[idx[b]] })
	sorted := make([]K, len(keys))
	for i, j := range idx {
		sorted[i] = keys[j]
	}
	r := active()
	if r == nil || len(sorted) < 2 {
		return sorted
	}
	mu.Lock()
	Sites[site]++
	mu.Unlock()
	n := len(sorted)
	var orders [][]int
	if n <= 3 {
		var perm func(cur []int, used int)
		perm = func(cur []int, used int) {
			if len(cur) == n {
				orders = append(orders, append([]int{}, cur...))
				return
			}
			for i := 0; i < n; i++ {
				if used&(1<<i) == 0 {
					perm(append(cur, i), used|1<<i)
				}
			}
		}
		perm(nil, 0)
	} else {
		id := make([]int, n)
		rev := make([]int, n)
		for i := range id {
			id[i], rev[i] = i, n-1-i
		}
		orders = append(orders, id, rev)
		for s := 1; s < n; s++ {
			rot := make([]int, n)
			for i := range rot {
				rot[i] = (i + s) % n
			}
			orders = append(orders, rot)
		}
	}
	c := r.choose(len(orders), false)
	out := make([]K, n)
	for i, j := range orders[c] {
		out[i] = sorted[j]
	}
	return out
}

// ---- package-level state of the instrumented packages
//
// A stateless explorer must start every execution from the same state. The instrumenter registers
// every package-level variable of the library (RegisterGlobal runs during package initialisation,
// after the variable's own initialiser); the first ResetGlobals call, made before any execution, records
// the values as the initial state and every later call puts them back. Maps, slices and arrays are copied in depth, everything else by assignment (pointers,
// interfaces, functions and channels keep their identity: sentinel errors must stay comparable).

type global struct {
	name string
	ptr  reflect.Value // pointer to the variable
	init reflect.Value // private copy of the initial value
}

var globals []global

func copyValue(v reflect.Value) reflect.Value {
	switch v.Kind() {
	case reflect.Map:
		if v.IsNil() {
			return v
		}
		m := reflect.MakeMapWithSize(v.Type(), v.Len())
		it := v.MapRange()
		for it.Next() {
			m.SetMapIndex(it.Key(), copyValue(it.Value()))
		}
		return m
	case reflect.Slice:
		if v.IsNil() {
			return v
		}
		// the copy keeps the capacity (and what lies beyond the length): a scratch buffer made with spare capacity
		// must be one after the reset as well, or code that shares its backing array would stop doing so
		full := v.Slice3(0, v.Cap(), v.Cap())
		s := reflect.MakeSlice(v.Type(), v.Cap(), v.Cap())
		for i := 0; i < full.Len(); i++ {
			s.Index(i).Set(copyValue(full.Index(i)))
		}
		return s.Slice3(0, v.Len(), v.Cap())
	case reflect.Array:
		a := reflect.New(v.Type()).Elem()
		for i := 0; i < v.Len(); i++ {
			a.Index(i).Set(copyValue(v.Index(i)))
		}
		return a
	}
	return v
}

// RegisterGlobal records a package-level variable and its initial value. It returns true so that it
// can be used as the initialiser of a blank variable.
func RegisterGlobal(name string, ptr interface{}) bool {
	p := reflect.ValueOf(ptr)
	globals = append(globals, global{name: name, ptr: p})
	return true
}

var globalsFrozen bool

// ResetGlobals restores every registered variable to (a fresh copy of) its initial value.
func ResetGlobals() {
	if !globalsFrozen {
		// first call, before any execution: package initialisation (including init functions) is
		// complete, the values found now are the initial state
		globalsFrozen = true
		for i := range globals {
			globals[i].init = copyValue(globals[i].ptr.Elem())
		}
	}
	for _, g := range globals {
		g.ptr.Elem().Set(copyValue(g.init))
	}
	sharedObjs = map[uintptr]bool{}
	for _, g := range globals {
		collectShared(g.ptr.Elem(), 0)
	}
}

// ---- objects shared through package-level variables
//
// An object that a package-level variable points to (a shared *token.FileSet, say) is shared by every
// goroutine even if it synchronises internally, so the order of operations on it is part of the
// schedule. The instrumenter places SyncPoint before calls of such objects' methods; it is a scheduling
// point only for objects reachable from a registered package-level variable, and it orders the
// operations like a lock would (no race is reported for them: they are internally synchronised).

var sharedObjs = map[uintptr]bool{}

func collectShared(v reflect.Value, depth int) {
	if depth > 3 {
		return
	}
	switch v.Kind() {
	case reflect.Ptr:
		if !v.IsNil() {
			sharedObjs[v.Pointer()] = true
			collectShared(v.Elem(), depth+1)
		}
	case reflect.Interface:
		if !v.IsNil() {
			collectShared(v.Elem(), depth+1)
		}
	case reflect.Struct:
		for i := 0; i < v.NumField(); i++ {
			collectShared(v.Field(i), depth+1)
		}
	}
}

// SyncPoint marks an operation on an internally synchronised object.
func SyncPoint(p interface{}, name string) {
	r := active()
	if r == nil || r.mapOnly {
		return
	}
	addr := ptrOf(p)
	if addr == 0 || !sharedObjs[addr] {
		return
	}
	r.point()
	t := r.cur
	r.Events = append(r.Events, fmt.Sprintf("t%d S %s", t.id, name))
	clock := r.objClocks[addr]
	vcJoin(&t.vc, clock)
	r.objClocks[addr] = append([]int{}, t.vc...)
	t.tick()
}

// Yield is a pure scheduling point without a memory event: a call out of the library into code the harness
// supplies (a user callback that may take any amount of time), where another thread may run.
func Yield(name string) {
	r := active()
	if r == nil || r.mapOnly {
		return
	}
	r.point()
	r.Events = append(r.Events, fmt.Sprintf("t%d Y %s", r.cur.id, name))
}

// GlobalNames lists the registered variables (for the evidence file).
func GlobalNames() []string {
	var out []string
	for _, g := range globals {
		out = append(out, g.name)
	}
	sort.Strings(out)
	return out
}
