#!/bin/bash
# usage: run.sh <ID> quick|thorough | run.sh replay <file> | run.sh selfcheck | run.sh list
# Rebuilds the harness against /repo's current working tree on every invocation (Go build cache makes
# the unchanged case ~1 s). C16 additionally instruments the current sources (see instr/) and builds
# the harness with that overlay, plus a -race build for the free-running pass.
set -u
export GOFLAGS=-mod=mod GOPROXY=off GOSUMDB=off GOTOOLCHAIN=local
export VERIF_ROOT="$(cd "$(dirname "$0")" && pwd)"
cd "$VERIF_ROOT"
WORK="$(mktemp -d "${TMPDIR:-/tmp}/vcheck-bin.XXXXXX")"
trap 'rm -rf "$WORK"' EXIT
cp /repo/go.sum "$VERIF_ROOT/h/go.sum" 2>/dev/null
# VERIF_REPO (tools only, never set by a registered command): build against a scratch copy of the library
# instead of /repo, so that a seeded change can be tried without touching /repo
REPO="${VERIF_REPO:-/repo}"
MODFLAG=""
if [ "$REPO" != /repo ]; then
  sed "s#=> /repo#=> $REPO#" "$VERIF_ROOT/h/go.mod" > "$WORK/go.mod" && cp "$REPO/go.sum" "$WORK/go.sum" || exit 2
  MODFLAG="-modfile=$WORK/go.mod"
fi

needs_sched=0
case "${1:-}" in
  C16) needs_sched=1 ;;
  replay) grep -q '"property": "C16"' "${2:-/dev/null}" 2>/dev/null && needs_sched=1 ;;
esac

if [ "$needs_sched" = 1 ]; then
  ( cd "$VERIF_ROOT/instr" && go build -o "$WORK/instr" . ) || { echo "engine error: instrumenter does not build" >&2; exit 2; }
  "$WORK/instr" -repo "$REPO" -out "$WORK/instr-out" -vsched "$VERIF_ROOT/instr/vsched" >&2 || { echo "engine error: instrumentation of /repo failed" >&2; exit 2; }
  export VERIF_INSTR_STATS="$WORK/instr-out/stats.json"
  ( cd "$VERIF_ROOT/h" && go build $MODFLAG -tags verifsched -overlay "$WORK/instr-out/overlay.json" -o "$WORK/vcheck" ./cmd/vcheck ) || { echo "engine error: instrumented harness does not build against /repo" >&2; exit 2; }
  ( cd "$VERIF_ROOT/h" && go build $MODFLAG -race -tags verifsched -overlay "$WORK/instr-out/overlay.json" -o "$WORK/vcheck-race" ./cmd/vcheck ) || { echo "engine error: race build failed" >&2; exit 2; }
  export VERIF_RACE_BIN="$WORK/vcheck-race"
else
  ( cd "$VERIF_ROOT/h" && go build $MODFLAG -o "$WORK/vcheck" ./cmd/vcheck ) || { echo "engine error: harness does not build against /repo" >&2; exit 2; }
fi
"$WORK/vcheck" "$@"
