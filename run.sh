#!/bin/bash
# usage: run.sh <ID> quick|thorough | run.sh replay <file> | run.sh selftest ...
set -u
export GOFLAGS=-mod=mod GOPROXY=off GOSUMDB=off GOTOOLCHAIN=local
export VERIF_ROOT="$(cd "$(dirname "$0")" && pwd)"
cd "$VERIF_ROOT"
BIN="$(mktemp -d "${TMPDIR:-/tmp}/vcheck-bin.XXXXXX")"
trap 'rm -rf "$BIN"' EXIT
cp /repo/go.sum "$VERIF_ROOT/h/go.sum" 2>/dev/null
( cd "$VERIF_ROOT/h" && go build -o "$BIN/vcheck" ./cmd/vcheck ) || { echo "engine error: harness does not build against /repo" >&2; exit 2; }
"$BIN/vcheck" "$@"
