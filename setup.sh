#!/bin/bash
# Builds the harness once (warms the Go build cache, including the instrumenter and the -race
# variant used by C16) and runs the corpus self-check. Offline.
set -eu
export GOFLAGS=-mod=mod GOPROXY=off GOSUMDB=off GOTOOLCHAIN=local
cd "$(dirname "$0")"
cp /repo/go.sum h/go.sum
( cd h && go build -o /dev/null ./cmd/vcheck )
W="$(mktemp -d)"
trap 'rm -rf "$W"' EXIT
( cd instr && go build -o "$W/instr" . )
"$W/instr" -repo /repo -out "$W/out" -vsched "$(pwd)/instr/vsched" >/dev/null
( cd h && go build -tags verifsched -overlay "$W/out/overlay.json" -o /dev/null ./cmd/vcheck )
( cd h && go build -race -tags verifsched -overlay "$W/out/overlay.json" -o /dev/null ./cmd/vcheck )
mkdir -p evidence replays
./run.sh selfcheck
