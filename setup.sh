#!/bin/bash
# Builds the harness once (warms the Go build cache) and runs the corpus self-check. Offline.
set -eu
export GOFLAGS=-mod=mod GOPROXY=off GOSUMDB=off GOTOOLCHAIN=local
cd "$(dirname "$0")"
cp /repo/go.sum h/go.sum
( cd h && go build -o /dev/null ./cmd/vcheck )
mkdir -p evidence replays
./run.sh selfcheck
