#!/bin/bash
# usage: tools/allseeds.sh [suffixes, default abcd]   re-runs every seed against the check of its own property
cd /verif
sfx="${1:-abcd}"
for d in seeded/C[0-9][0-9]-[$sfx]; do
  id=$(basename $d | cut -c1-3)
  p=/verif/$d/patch.diff
  base=""
  if ! git -C /repo apply --check $p 2>/dev/null; then
    base=$(python3 -c "import json,re;print(re.match(r'[0-9a-f]{7}',json.load(open('/verif/$d/meta.json'))['base_commit']).group(0))")
  fi
  echo "$(basename $d) base=${base:-HEAD}: $(BASE=$base tools/tryseed.sh $p $id 2>&1 | cut -c1-150)"
done
