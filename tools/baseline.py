#!/usr/bin/env python3
"""Runs the repository's pinned test suite on a tree (default /repo) and checks that every test of
BASELINE.json's stable_pass list passes. usage: baseline.py [dir]"""
import json, os, shutil, subprocess, sys, tempfile
d = sys.argv[1] if len(sys.argv) > 1 else "/repo"
# the repository's own tests leave their temporary packages behind: give them a directory that is removed
tmp = tempfile.mkdtemp(prefix="baseline.")
env = dict(os.environ, GOFLAGS="-mod=mod", GOPROXY="off", GOSUMDB="off", GOTOOLCHAIN="local", TMPDIR=tmp)
try:
  p = subprocess.run(["go", "test", "-json", "-vet=off", "-count=1", "-timeout", "25m", "./..."], cwd=d, env=env, capture_output=True, text=True)
finally:
  shutil.rmtree(tmp, ignore_errors=True)
passed = set()
for line in p.stdout.splitlines():
    try: ev = json.loads(line)
    except Exception: continue
    if ev.get("Action") == "pass" and ev.get("Test"):
        passed.add(ev["Package"] + "::" + ev["Test"])
want = json.load(open("/root/.vp/BASELINE.json"))["stable_pass"]
missing = [t for t in want if t not in passed]
print("baseline: %d/%d stable tests pass" % (len(want) - len(missing), len(want)))
for t in missing: print("  MISSING:", t)
sys.exit(1 if missing else 0)
