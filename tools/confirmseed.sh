#!/bin/bash
# usage: tools/confirmseed.sh <seed dir>   -- confirms a seeded change independently, in scratch worktrees:
#   builds, baseline 109/109, demo FAILS with the change and PASSES without it. Cleans up after itself.
set -u
export GOFLAGS=-mod=mod GOPROXY=off GOSUMDB=off GOTOOLCHAIN=local
SEED="$(readlink -f "$1")"
W="$(mktemp -d /tmp/confirm.XXXXXX)"
cleanup() { git -C /repo worktree remove --force "$W/changed" 2>/dev/null; git -C /repo worktree remove --force "$W/clean" 2>/dev/null; rm -rf "$W"; }
trap cleanup EXIT
git -C /repo worktree add -q --detach "$W/changed" "${BASE:-HEAD}" || exit 2
git -C /repo worktree add -q --detach "$W/clean" "${BASE:-HEAD}" || exit 2
( cd "$W/changed" && git apply "$SEED/patch.diff" ) || { echo "CONFIRM: patch does not apply"; exit 1; }
( cd "$W/changed" && go build ./... ) || { echo "CONFIRM: does not build"; exit 1; }
bl="$(python3 /verif/tools/baseline.py "$W/changed" | head -1)"
echo "CONFIRM: $bl"
rundemo() { # tree
  d="$W/demo-$(basename "$1")"; mkdir -p "$d"
  if [ -f "$SEED/demo_test.go" ]; then cp "$SEED"/demo*_test.go "$d/"; else cp -r "$SEED/demo/." "$d/"; fi
  printf 'module demo\n\ngo 1.18\n\nrequire github.com/dave/dst v0.0.0\n\nreplace github.com/dave/dst => %s\n' "$1" > "$d/go.mod"
  cp "$1/go.sum" "$d/go.sum"
  if ls "$d"/*_test.go >/dev/null 2>&1; then ( cd "$d" && timeout 600 go test -count=1 ./... >"$d/out.txt" 2>&1 ); else ( cd "$d" && timeout 600 go run . >"$d/out.txt" 2>&1 ); fi
  echo $?
}
rc_changed=$(rundemo "$W/changed"); rc_clean=$(rundemo "$W/clean")
echo "CONFIRM: demo exit on changed tree = $rc_changed (must be non-zero), on clean tree = $rc_clean (must be 0)"
tail -5 "$W/demo-changed/out.txt" | sed 's/^/    changed: /'
tail -2 "$W/demo-clean/out.txt" | sed 's/^/    clean:   /'
case "$bl" in *"109/109"*) ;; *) echo "CONFIRM: REJECTED (baseline)"; exit 1;; esac
if [ "$rc_changed" != 0 ] && [ "$rc_clean" = 0 ]; then echo "CONFIRM: OK"; else echo "CONFIRM: REJECTED (demo)"; exit 1; fi
