#!/bin/bash
# usage: tools/firstcontact.sh <round dir> <suffix> <ID...>   copies, confirms and runs each finished seed
# against the check of its own property, appending the raw result to seeded/round-<suffix>.raw
rd="$1"; sfx="$2"; shift 2
for id in "$@"; do
  out=$(VERIF_BUDGET_S=${VERIF_BUDGET_S:-900} /verif/tools/procseed.sh $rd/$id/seed $id-$sfx $id 2>&1 | tail -2 | cut -c1-260)
  echo "$out"
  echo "$id-$sfx: $(echo "$out" | tr '\n' ' ')" >> /verif/seeded/round-$sfx.raw
done
