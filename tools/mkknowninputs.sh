#!/bin/bash
# usage: tools/mkknowninputs.sh   (on a clean /repo)
# Regenerates known_inputs/<property>/<finding>.txt: the inputs (64-bit hashes) on which each listed
# layout finding of C01 (and C02's reuse of those signatures) is observed in the quick and thorough
# tiers. A deviation with the shape of a finding is attributed to it only on these inputs; run this
# tool deliberately after the corpus or an alphabet changed and review the diff of the lists.
set -eu
cd /verif
if [ -n "$(git -C /repo status --porcelain)" ]; then echo "mkknowninputs: /repo is not clean" >&2; exit 2; fi
rec="$(mktemp -d /tmp/knownrec.XXXXXX)"
trap 'rm -rf "$rec"' EXIT
for id in C01 C02; do
  for tier in quick thorough; do
    VERIF_RECORD_KNOWN="$rec" ./run.sh $id $tier >/dev/null 2>&1 || { echo "mkknowninputs: $id $tier did not pass" >&2; exit 1; }
  done
done
rm -rf known_inputs; mkdir -p known_inputs
for d in "$rec"/*/; do
  p=$(basename "$d"); mkdir -p known_inputs/$p
  for f in $(ls "$d" | sed 's/\.[0-9]*\.part$//' | sort -u); do
    cat "$d"/$f.*.part | sort -u > known_inputs/$p/$f.txt
    echo "$p/$f: $(wc -l < known_inputs/$p/$f.txt) inputs"
  done
done
