#!/usr/bin/env python3
"""Writes /verif/MANIFEST.json from the table below (single source of truth for the interface)."""
import json, os
ROOT = os.path.dirname(os.path.dirname(os.path.abspath(__file__)))
ALL = ["C%02d" % i for i in range(1, 21)]
CHECKS = {
 "C01": dict(level="model_checking", tech="stateless choice-tree exploration (deviation-bounded, exhaustive) of comment/blank-line insertions into corpus templates; real decorate/restore run on every distinct canonical input",
   text="Every gofmt-canonical file obtainable from the corpus templates by at most k (quick 2, thorough 3) insertions from the comment/newline alphabet round-trips byte for byte through all public entry points, except the inputs matching the listed known findings. Exhaustive within that bound; says nothing beyond the alphabet and templates.",
   note="trusts go/format as the definition of canonical form; known layout findings are attributed by exact deviation signatures (known_findings.json)", ref="DESIGN.md §4 C01"),
 "C03": dict(level="model_checking", tech="choice-tree exploration of non-canonical inputs (whitespace/comment alphabet x whole-file transforms), token-stream and comment oracle against gofmt",
   text="For every parseable candidate obtainable from the templates by <=1 insertion from an 11-letter alphabet under 6 whole-file transforms (CRLF, BOM, spaces, no indentation...) and <=2 insertions from a 3-letter alphabet, the printed output parses, has gofmt's token stream and the input's comments in gofmt's order (whitespace aside).",
   note="go/scanner defines the token stream; comment texts are compared with whitespace removed; three narrowly signed known findings (gofmt output that does not re-parse; directive placement)", ref="DESIGN.md §4 C03"),
 "C05": dict(level="model_checking", tech="exhaustive enumeration of spacing/decoration vectors on hand-built trees against a line-break ledger model, both sides through gofmt",
   text="For 8 list kinds and 3 elements, all 729 Before/After assignments crossed with all Start/End decoration assignments (<=2 non-empty quick, <=3 thorough) print with the line structure of the text the non-additive rule denotes.",
   note="indentation is not compared here (C01/C02 do); go/format normalises both sides", ref="DESIGN.md §4 C05"),
 "C06": dict(level="model_checking", tech="exhaustive enumeration of node instances and (node, slot) pairs with reflection-based completeness/aliasing/mutation oracles",
   text="Every node instance of the corpus (plain and with every decoration point filled) is cloned and compared field by field, checked for storage disjointness and mutation independence and for identical printing when substituted; every class of (node, compatible slot) pair is built shared (must panic 'duplicate node') and cloned (must print both).",
   note="reflection sees all state because dst nodes have only exported fields", ref="DESIGN.md §4 C06"),
 "C08": dict(level="model_checking", tech="choice-tree exploration of import-bearing templates x resolver pairs on a typed in-memory world",
   text="Every canonical variant (<=2 insertions, including around the dot of qualified identifiers) of 13 import-bearing templates is decorated with goast/gotypes resolvers and restored with guess/simple/map resolvers: bytes unchanged and path annotations stable under re-decoration.",
   note="only resolver pairs that name every package correctly are in the quantifier; inputs whose plain round trip is not byte-exact are left to C01", ref="DESIGN.md §4 C08"),
 "C11": dict(level="model_checking", tech="exhaustive enumeration of corpus variants x resolver, map laws checked by reflection against ast.Inspect",
   text="For every corpus file and every <=1-insertion variant, with and without a resolver, Decorator.Map and Restorer.Map are total, typed, in-tree, mutually inverse (collapsed selectors excepted) and commute with every parent/child edge.",
   note="children are found by reflection over Node-typed fields", ref="DESIGN.md §4 C11"),
 "C12": dict(level="model_checking", tech="exhaustive enumeration of parsed/decorated/edited trees and file sequences; reflection over every token.Pos of the restored ast",
   text="Every restored ast (parsed variants, every single decoration at every point, filled decorations, list edits, Extras on/off, sequences of 2-3 files in one FileSet) has all positions inside its one file, disjoint files, strictly increasing lines, sorted comments, and the same position order (including coincidences) as a fresh parse of its printed text.",
   note="comment-vs-token order is only required for decorations the decorator placed itself; printed with go/printer using gofmt settings", ref="DESIGN.md §4 C12"),
 "C13": dict(level="model_checking", tech="exhaustive enumeration of pruning predicates per tree; reference traversal by reflection and go/ast.Inspect twin",
   text="For every corpus tree: full traversal, pruning at each single node, pruning by each node type, removal of each optional child, a visitor-per-subtree Walk, and a 3-file Package agree with the reflection-derived traversal and with go/ast.Inspect of the original ast.",
   note="go/ast of this toolchain is the reference order", ref="DESIGN.md §4 C13"),
 "C15": dict(level="model_checking", tech="exhaustive enumeration of truncations, byte edits, token edits of the corpus and of all short lexeme strings; panic oracle",
   text="No prefix, suffix, single-byte insertion/substitution (20-byte alphabet), token deletion/duplication/swap, pair of token deletions of any corpus file, nor any string of <=5 lexemes over a 20-lexeme alphabet makes Parse/ParseFile/Fprint panic.",
   note="a worker crash (fatal error) is itself reported as a violation", ref="DESIGN.md §4 C15"),
 "C19": dict(level="model_checking", tech="explicit-state BFS over operation histories against a []string reference model",
   text="All histories of Append/Prepend/Replace/Clear with 6 argument shapes from 3 initial lists to depth 7 (quick) / 10 (thorough): All() equals the model, caller slices are never modified or retained, and the rendered comments equal All().",
   note="states merged by (relabelled contents, spare capacity): the methods never inspect string values", ref="DESIGN.md §4 C19"),
}
NA_REASON = "check not built yet in this session (planned, see DESIGN.md)"
def main():
    checks = []
    for pid in ALL:
        if pid not in CHECKS: continue
        c = CHECKS[pid]
        checks.append({
            "property_id": pid,
            "quick_cmd": "./run.sh %s quick" % pid,
            "thorough_cmd": "./run.sh %s thorough" % pid,
            "evidence_file": "/verif/evidence/%s.json" % pid,
            "replay_cmd_template": "./run.sh replay {path}",
            "engine": c.get("engine", "vcheck"),
            "level_claimed": {"category": c["level"], "text": c["text"], "design_ref": c["ref"]},
            "level_note": c["note"],
            "technique": c["tech"],
        })
    m = {
        "version": 1,
        "setup_cmd": "./setup.sh",
        "hooks": {
            "guard": "verif",
            "enable": "no hooks are committed to /repo: checks that need scheduling/map-order/fault hooks instrument the current /repo sources at check time and inject them with go build -overlay",
            "baseline_off_cmd": "cd /repo && GOFLAGS=-mod=mod GOPROXY=off GOSUMDB=off GOTOOLCHAIN=local go test -vet=off -count=1 ./...",
            "source_commits": [],
            "add_only": True,
        },
        "engines": [
            {"name": "vcheck", "path": "/verif/h", "serves_properties": sorted(CHECKS), "kind_free_text": "hand-written Go explorer: stateless deviation-bounded choice-tree search (E-CHOICE), explicit-state BFS over operation histories (E-STATE), fault-position enumeration (E-FAULT), controlled scheduler (E-SCHED); all executions run on the real dave/dst code built from /repo's working tree"},
        ],
        "checks": checks,
        "not_applicable": [{"property_id": p, "reason": NA_REASON} for p in ALL if p not in CHECKS],
        "notes": "Every check rebuilds the harness against /repo's working tree (go build, cached). Exit 0 = held on everything explored (known findings printed as KNOWN-FINDING lines), exit 1 = VIOLATION lines, exit 2 = engine error.",
    }
    json.dump(m, open(os.path.join(ROOT, "MANIFEST.json"), "w"), indent=1)
main()
