#!/usr/bin/env python3
"""Writes /verif/MANIFEST.json from the table below (single source of truth for the interface)."""
import json, os
ROOT = os.path.dirname(os.path.dirname(os.path.abspath(__file__)))
ALL = ["C%02d" % i for i in range(1, 21)]
CHECKS = {
 "C01": dict(level="model_checking", tech="stateless choice-tree exploration (deviation-bounded, exhaustive) of comment/blank-line insertions into corpus templates; real decorate/restore run on every distinct canonical input",
   text="Every gofmt-canonical file obtainable from the 61 corpus templates (one with non-ASCII text) by at most k (quick 2, thorough 3) insertions from the comment/newline alphabet, plus one big file concatenated from all import-free templates, round-trips byte for byte through all public entry points (Parse+Fprint, Decorator+Restorer on a shared FileSet, helpers, named FileRestorer, Restorer with Extras, one Restorer restoring two files before printing, ParseFile modes, ParseDir with the candidate as first and as last file next to a commented sibling), except on the inputs recorded for the listed known findings. Exhaustive within that bound; says nothing beyond the alphabet and templates.",
   note="trusts go/format as the definition of canonical form; known layout findings are attributed by exact deviation signatures and only on the inputs recorded for them (known_findings.json, known_inputs/)", ref="DESIGN.md §4 C01"),
 "C03": dict(level="model_checking", tech="choice-tree exploration of non-canonical inputs (whitespace/comment alphabet x whole-file transforms), token-stream and comment oracle against gofmt",
   text="For every parseable candidate obtainable from the canonical templates and from a non-canonical corpus (number literals in non-canonical spelling, stray semicolons, unsorted import groups, redundant parentheses) by <=1 insertion from an 11-letter alphabet under 6 whole-file transforms (CRLF, BOM, spaces, no indentation...), a line directive with every line number, <=2 insertions from a 3-letter alphabet, and every hanging-indent comment vector, the printed output parses, has gofmt's token stream (or the input's where gofmt itself changes the statement structure) and the input's comments in gofmt's order (whitespace aside), and does not depend on where the file sits in the restorer's FileSet.",
   note="go/scanner defines the token stream; comment texts are compared with whitespace removed; five narrowly signed known findings (gofmt output that does not re-parse; directive placement; non-empty blank lines; comment before a spec of a re-sorted import group)", ref="DESIGN.md §4 C03"),
 "C05": dict(level="model_checking", tech="exhaustive enumeration of spacing/decoration vectors on hand-built trees against a line-break ledger model, both sides through gofmt",
   text="For 19 list kinds (statements, declarations, specs, import specs, fields, methods, function parameters and type parameters, clauses, arguments, elements, raw-string elements, path-carrying identifiers under import management, statement lists containing bare blocks in function, case and comm clause bodies) and 3 elements, all 729 Before/After assignments crossed with all Start/End decoration assignments (<=2 non-empty quick, <=3 thorough) print with the line structure of the text the non-additive rule denotes, wherever the file sits in the FileSet.",
   note="indentation is not compared here (C01/C02 do); go/format normalises both sides", ref="DESIGN.md §4 C05"),
 "C06": dict(level="model_checking", tech="exhaustive enumeration of node instances and (node, slot) pairs with reflection-based completeness/aliasing/mutation oracles",
   text="Every node instance of the corpus (plain and with every decoration point filled, in use or not) and a decorated Package node is cloned and compared field by field, checked for storage disjointness and mutation independence and for identical printing when substituted (also under import management, also for files whose File.Imports has drifted from Decls); every class of (node, compatible slot) pair is built shared (must panic 'duplicate node', also with Extras, through a reused FileRestorer and across two files of one Restorer) and cloned (must print both).",
   note="reflection sees all state because dst nodes have only exported fields", ref="DESIGN.md §4 C06"),
 "C08": dict(level="model_checking", tech="choice-tree exploration of import-bearing templates x resolver pairs on a typed in-memory world",
   text="Every canonical variant (<=2 insertions, including around the dot of qualified identifiers) of 18 import-bearing templates (cgo and a package really named v1 included) is decorated with goast/gotypes resolvers and restored with guess/simple/map/gobuild resolvers: bytes unchanged (also on a second, late print) and path annotations stable under re-decoration; every ordered template pair through one shared goast resolver, restored by fresh Restorers, one Restorer and one FileRestorer.",
   note="only resolver pairs that name every package correctly are in the quantifier; inputs whose plain round trip is not byte-exact are left to C01", ref="DESIGN.md §4 C08"),
 "C11": dict(level="model_checking", tech="exhaustive enumeration of corpus variants x resolver, map laws checked by reflection against ast.Inspect",
   text="For every corpus file and every <=1-insertion variant, with and without a resolver (import-bearing files also with the types-based resolver on parses with and without object resolution), and every non-canonical file as written, Decorator.Map and Restorer.Map are total, typed, in-tree, mutually inverse (only selectors on package names may collapse) and commute with every parent/child edge; also for file pairs through one Restorer, for restores that must change the import declarations, and for the package entry point.",
   note="children are found by reflection over Node-typed fields", ref="DESIGN.md §4 C11"),
 "C12": dict(level="model_checking", tech="exhaustive enumeration of parsed/decorated/edited trees and file sequences; reflection over every token.Pos of the restored ast",
   text="Every restored ast (parsed variants incl. non-canonical files, every single decoration at every point, filled decorations, list edits, Extras on/off, sequences of 2-3 files in one FileSet with fresh or reused FileRestorer, import-managed restores with imports kept / recreated / renamed / added) has all positions inside its one file, disjoint files, strictly increasing lines, sorted comments, every node's range inside its parent's, and the same position order (including coincidences) as a fresh parse of its printed text.",
   note="comment-vs-token order is only required for decorations the decorator placed itself; printed with go/printer using gofmt settings", ref="DESIGN.md §4 C12"),
 "C13": dict(level="model_checking", tech="exhaustive enumeration of pruning predicates per tree; reference traversal by reflection and go/ast.Inspect twin",
   text="For every corpus tree (canonical, non-canonical and syntactically broken sources with Bad nodes): full traversal, pruning at each single node (thorough: each pair), pruning by each node type, removal of each optional child and of all at once, traversal rooted at every inner node, the callback leaving by panic at every call, a visitor-per-subtree Walk, and a 3-file Package agree with the reflection-derived traversal and with go/ast.Inspect of the original ast.",
   note="go/ast of this toolchain is the reference order", ref="DESIGN.md §4 C13"),
 "C15": dict(level="model_checking", tech="exhaustive enumeration of truncations, byte edits, token edits of the corpus and of all short lexeme strings; panic oracle",
   text="No prefix, suffix, single-byte insertion/substitution (20-byte alphabet), token deletion/duplication/swap, pair of token deletions of any corpus file, nor any string of <=5 lexemes over a 20-lexeme alphabet (nor any prefix or suffix of the CRLF version of a corpus file) makes Parse/ParseFile (4 modes)/ParseDir (plain and through a Decorator with goast)/Fprint panic.",
   note="a worker crash (fatal error) is itself reported as a violation", ref="DESIGN.md §4 C15"),
 "C19": dict(level="model_checking", tech="explicit-state BFS over operation histories against a []string reference model",
   text="All histories of Append/Prepend/Replace/Clear with 6 argument shapes from 7 initial lists (nil, empty, spare capacity, and four lists produced by the decorator and by Clone) to depth 7 (quick) / 10 (thorough): All() equals the model, caller slices are never modified or retained, earlier All() results keep their contents, sibling lists of the same tree are untouched, and the rendered comments (at every decoration point of a file with many optional parts absent, on a path-carrying identifier, and at an import spec of a block that receives a new import, without the list being rewritten) equal All().",
   note="states merged by (relabelled contents, spare capacity): the methods never inspect string values", ref="DESIGN.md §4 C19"),
}

CHECKS.update({
 "C02": dict(level="model_checking", tech="explicit-state BFS over list-edit histories on real trees (fresh parse + replay per state) against a text-chunk reference model",
   text="For 10 list kinds (select clauses included), two lists of 3+2 differently shaped elements, 7 comment configurations per element (among them clause bodies holding only comments) and newline/blank/inline separators, every history of swap/delete/duplicate-with-Clone/move-to-other-list up to depth 1 (all layouts) and 2 (uniform layouts; thorough 2 / 3) prints — directly, through a Restorer with Extras, as a later file of a populated FileSet, before another file is restored by the same Restorer and through a reused FileRestorer — exactly gofmt of the text whose chunks were edited the same way.",
   note="layouts whose neighbours would not all be separated alike are outside the quantifier (counted); inline leading comments and comments inside import specs are outside the chunk definition", ref="DESIGN.md §4 C02"),
 "C04": dict(level="model_checking", tech="exhaustive enumeration of point subsets on the documented examples plus a structural rule on every corpus node instance; token+comment sequence oracle",
   text="For each of the 70 documented examples every subset of <=2 points (thorough: all subsets) x {block, line, newline} placed directly on the node prints where the documentation shows it (block) / exactly once with unchanged tokens (line, newline); for every node instance of the corpus (and hand-built variants with token-less flags inverted) every point singly, with two comments, all points of the node and all points of all nodes together obey: exactly once, Start before the first token, every other point after it (unless the part it is named for is absent), End after the last (before the next separately emitted token), points in order; every print repeated late, early and through a reused FileRestorer; Extras/clone mode; helper and accessor laws for every node type.",
   note="the documentation is the snapshot of gendst/data/positions.go; ',' and ';' are ignored when locating comments", ref="DESIGN.md §4 C04"),
 "C07": dict(level="model_checking", tech="exhaustive enumeration of import configurations; independent import-table oracle on the re-parsed output plus go/types",
   text="Every configuration of (used-path set, 13 existing import shapes, one or two simultaneous alias overrides, resolver map, local path, Restorer built by constructor or through its fields, File.Imports stale or not, an earlier file restored by the same Restorer) over a 5-path universe is restored with import management and judged by an oracle that does not share code with updateImports: reference binding, exact import set, distinct names, alias preference, order/comments/group separation when nothing is added, type-checks.",
   note="references are identified by package-specific names (Fi/Ti/Vi); gofmt's own import sorting is accounted for when judging order", ref="DESIGN.md §4 C07"),
 "C09": dict(level="model_checking", tech="exhaustive enumeration of generated type-correct programs; oracle computed from go/types",
   text="For 5 dependency paths (plain, dotted, vendored, nested-vendored, root vendor) x 3 import styles x a 28-role catalogue (singly and in ordered pairs) x shadowing modes x 3 locations of the local package x with/without two blank imports, every identifier's path from the types-based resolver equals the classification computed from go/types — through DecorateFile, DecorateNode on every declaration alone and on a package node, NewDecoratorFromPackage and a Decorator configured through its fields; the syntax-based resolver agrees or errors where it must, also when asked again.",
   note="only files that type-check are in the quantifier", ref="DESIGN.md §4 C09"),
 "C10": dict(level="model_checking", tech="exhaustive enumeration of (source styles, target styles, item, used set, move history) on typed worlds; go/types acceptance oracle",
   text="Every combination of source import styles, target import styles (absent/plain/alias/dot/alias equal to another package's name/blank; optionally dot-importing a package with clashing names), moved item (function, function using a source-local function, variable, statement; references in call, type, value, map-key, array-key, type-assertion and generic-instantiation positions), dependency subset, decoration of the whole file or of the declaration alone, and history (single, chain, two items, back, clone, reused FileRestorer, resting in the referenced package) yields a target that type-checks with every moved reference denoting the same package-level object.",
   note="type-incorrect source/target files are outside the quantifier (counted)", ref="DESIGN.md §4 C10"),
 "C14": dict(level="model_checking", tech="choice-tree exploration of cursor scripts driving dstutil.Apply and x/tools astutil.Apply on twin trees",
   text="For 15 sources covering every list field plus a 3-file package and three non-file roots, every 1-site script over 22 actions and every 2-site script over the 6 basic actions (thorough: 2 sites x 22, 3 sites x 6) produces identical callback logs, panics and final trees in dstutil.Apply and astutil.Apply, and Parent/Name/Index locate Node at every callback.",
   note="astutil v0.1.12 is the reference; its Doc/Comment callbacks and nil TypeParams callbacks are normalised away", ref="DESIGN.md §4 C14"),
 "C17": dict(level="fault_enumeration", tech="fault-position enumeration with the choice-tree explorer (a failing resolver call is a deviation), histories of up to three (thorough four) failures then success",
   text="For every import-bearing template (forward references included) and 11 entry configurations (DecorateFile with three resolver arrangements, Decorator.Parse on valid and on syntactically broken source, Decorator.ParseDir on a two-package directory, Package.SaveWithResolver on a real file, four restore configurations), every position of the resolver call sequence is failed in histories of up to three (thorough: four) failures before the retry: error wraps the injected one, no panic, no output, no tree, input unchanged, final retry equals the failure-free result.",
   note="map orders that decide which path is resolved k-th are left to C16", ref="DESIGN.md §4 C17"),
 "C18": dict(level="model_checking", tech="exhaustive enumeration of object-rich sources and file subsets; graph-isomorphism oracle by reflection and differential against go/ast.NewPackage",
   text="For 15 object-rich sources and the whole corpus the decorator's and the Extras-restorer's object/scope/node maps are graph isomorphisms, also across files decorated one at a time and for isolated declarations; for every subset of <=4 files of an 11-file pool (raw-string and escaped import paths included) x importer x universe, dst.NewPackage agrees with go/ast.NewPackage on scope, errors, remaining unresolved names and resolutions.",
   note="for names declared twice only the name (not the surviving kind) is compared, since file order is a map order on both sides", ref="DESIGN.md §4 C18"),
 "C20": dict(level="fault_enumeration", tech="exhaustive enumeration of package shapes and edit assignments on a real temporary directory, crossed with every failing resolver call (choice tree)",
   text="For packages of 1-3 files (8 sources incl. dot-import and leading line directive) in 1-2 directories next to unrelated files, every edit assignment and every single resolver failure: SaveWithResolver creates/removes nothing, writes exactly the import-managed print of each file, leaves unedited files byte-identical and, on failure, returns the error and leaves the failing and all later files untouched; one history through Package.Save and its default resolver (save, unresolvable dependency, failing saves, dependency restored, save).",
   note="decorator.Load (go/packages) is not exercised; packages are hand-built with the fields Load fills", ref="DESIGN.md §4 C20"),
})


CHECKS.update({
 "C16": dict(level="model_checking", tech="stateless model checking under a controlled scheduler (preemption-bounded, all interleavings at hooked operations) with a vector-clock happens-before race detector; explorer-controlled map iteration orders; free-running go -race pass as supplement",
   text="On sources instrumented at check time (sync shims, hooked package-level variables and resolver state, go statements as controlled threads, method calls on shared FileSets as scheduling points, package-level state reset before every execution), 2 (quick) / 3 (thorough, base scenarios) goroutines decorating and restoring different files in 8 sharing scenarios (shared goast resolver, vendored paths, per-thread caching resolver, package-level helpers) are run through every interleaving with <=3 preemptions: no unordered conflicting access, no deadlock, no panic, results equal the sequential ones; 12 sequential scenarios are run under every single (pair of) non-default map iteration order with identical output; the same bodies run free under the Go race detector.",
   note="scheduling points are the hooked operations only (sync primitives, package-level variables, resolver state); reads of locations never written are not scheduling points (discovery pass, re-checked at run time); other memory is covered by the -race pass only", ref="DESIGN.md §3.3, §4 C16"),
})

NA_REASON = "check not built yet in this session (planned, see DESIGN.md)"
def main():
    checks = []
    for pid in ALL:
        if pid not in CHECKS: continue
        c = CHECKS[pid]
        checks.append({
            "property_id": pid,
            "quick_cmd": "./run.sh %s quick" % pid,
            "thorough_cmd": "./run.sh %s thorough" % pid,
            "evidence_file": "/verif/evidence/%s.json" % pid,
            "replay_cmd_template": "./run.sh replay {path}",
            "engine": c.get("engine", "vcheck"),
            "level_claimed": {"category": c["level"], "text": c["text"], "design_ref": c["ref"]},
            "level_note": c["note"],
            "technique": c["tech"],
        })
    m = {
        "version": 1,
        "setup_cmd": "./setup.sh",
        "hooks": {
            "guard": "verif",
            "enable": "no hooks are committed to /repo: C16 instruments the current /repo sources at check time (/verif/instr: sync->vsched shim, vsched.Touch before shared accesses, range-over-map -> vsched.MapKeys, go statements -> vsched.Spawn, vsched.SyncPoint before *token.FileSet method calls, vsched.RegisterGlobal for every package-level variable) and injects them, together with the virtual package github.com/dave/dst/vsched, with go build -tags verifsched -overlay; all other checks drive the unmodified sources",
            "baseline_off_cmd": "cd /repo && GOFLAGS=-mod=mod GOPROXY=off GOSUMDB=off GOTOOLCHAIN=local go test -vet=off -count=1 ./...",
            "source_commits": [],
            "add_only": True,
        },
        "engines": [
            {"name": "vcheck", "path": "/verif/h", "serves_properties": sorted(CHECKS), "kind_free_text": "hand-written Go explorer: stateless deviation-bounded choice-tree search (E-CHOICE), explicit-state BFS over operation histories (E-STATE), fault-position enumeration (E-FAULT), controlled scheduler (E-SCHED); all executions run on the real dave/dst code built from /repo's working tree"},
        ],
        "checks": checks,
        "not_applicable": [{"property_id": p, "reason": NA_REASON} for p in ALL if p not in CHECKS],
        "notes": "Every check rebuilds the harness against /repo's working tree (go build, cached). Exit 0 = held on everything explored (known findings printed as KNOWN-FINDING lines), exit 1 = VIOLATION lines, exit 2 = engine error.",
    }
    json.dump(m, open(os.path.join(ROOT, "MANIFEST.json"), "w"), indent=1)
main()
