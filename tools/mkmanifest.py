#!/usr/bin/env python3
"""Writes /verif/MANIFEST.json from the table below (single source of truth for the interface)."""
import json, os
ROOT = os.path.dirname(os.path.dirname(os.path.abspath(__file__)))
ALL = ["C%02d" % i for i in range(1, 21)]
CHECKS = {
 "C01": dict(level="model_checking", tech="stateless choice-tree exploration (deviation-bounded, exhaustive) of comment/blank-line insertions into corpus templates; real decorate/restore run on every distinct canonical input",
   text="Every gofmt-canonical file obtainable from the corpus templates by at most k (quick 2, thorough 3) insertions from the comment/newline alphabet round-trips byte for byte through all public entry points, except the inputs matching the listed known findings. Exhaustive within that bound; says nothing beyond the alphabet and templates.",
   note="trusts go/format as the definition of canonical form; known layout findings are attributed by exact deviation signatures (known_findings.json)", ref="DESIGN.md §4 C01"),
}
NA_REASON = "check not built yet in this session (planned, see DESIGN.md)"
def main():
    checks = []
    for pid in ALL:
        if pid not in CHECKS: continue
        c = CHECKS[pid]
        checks.append({
            "property_id": pid,
            "quick_cmd": "./run.sh %s quick" % pid,
            "thorough_cmd": "./run.sh %s thorough" % pid,
            "evidence_file": "/verif/evidence/%s.json" % pid,
            "replay_cmd_template": "./run.sh replay {path}",
            "engine": c.get("engine", "vcheck"),
            "level_claimed": {"category": c["level"], "text": c["text"], "design_ref": c["ref"]},
            "level_note": c["note"],
            "technique": c["tech"],
        })
    m = {
        "version": 1,
        "setup_cmd": "./setup.sh",
        "hooks": {
            "guard": "verif",
            "enable": "no hooks are committed to /repo: checks that need scheduling/map-order/fault hooks instrument the current /repo sources at check time and inject them with go build -overlay",
            "baseline_off_cmd": "cd /repo && GOFLAGS=-mod=mod GOPROXY=off GOSUMDB=off GOTOOLCHAIN=local go test -vet=off -count=1 ./...",
            "source_commits": [],
            "add_only": True,
        },
        "engines": [
            {"name": "vcheck", "path": "/verif/h", "serves_properties": sorted(CHECKS), "kind_free_text": "hand-written Go explorer: stateless deviation-bounded choice-tree search (E-CHOICE), explicit-state BFS over operation histories (E-STATE), fault-position enumeration (E-FAULT), controlled scheduler (E-SCHED); all executions run on the real dave/dst code built from /repo's working tree"},
        ],
        "checks": checks,
        "not_applicable": [{"property_id": p, "reason": NA_REASON} for p in ALL if p not in CHECKS],
        "notes": "Every check rebuilds the harness against /repo's working tree (go build, cached). Exit 0 = held on everything explored (known findings printed as KNOWN-FINDING lines), exit 1 = VIOLATION lines, exit 2 = engine error.",
    }
    json.dump(m, open(os.path.join(ROOT, "MANIFEST.json"), "w"), indent=1)
main()
