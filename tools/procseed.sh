#!/bin/bash
# usage: tools/procseed.sh <seed source dir> <name under seeded/> <check ids...>
# copies the deliverables, confirms the seed independently and tries the given checks (BASE optional)
set -u
src="$1"; name="$2"; shift 2
mkdir -p /verif/seeded/$name && cp -r "$src"/. /verif/seeded/$name/ && rm -f /verif/seeded/$name/go.mod /verif/seeded/$name/go.sum
echo "== $name: $(/verif/tools/confirmseed.sh /verif/seeded/$name 2>&1 | grep -E 'CONFIRM: (OK|REJ|patch|does)')"
/verif/tools/tryseed.sh /verif/seeded/$name/patch.diff "$@" | cut -c1-220
