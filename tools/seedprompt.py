#!/usr/bin/env python3
"""Prepares one scratch worktree of /repo and one prompt file per property for a round of independent
seeded changes. usage: seedprompt.py <round dir under /tmp> <suffixes of earlier rounds, e.g. abc>
The prompt contains only the property text (and one-line summaries of earlier seeds to differ from):
nothing else from /verif is shown to the sub-agent."""
import json, os, shutil, subprocess, sys
rd, earlier = sys.argv[1], sys.argv[2] if len(sys.argv) > 2 else ""
os.makedirs(rd, exist_ok=True)
shutil.copy('/verif/tools/baseline.py', rd + '/check_baseline.py')
props = {}
for l in open('/verif/properties.jsonl'):
    p = json.loads(l); props[p['id']] = p
tpl = '''You are helping to evaluate a verification suite for the Go library github.com/dave/dst (Decorated Syntax Tree: a go/ast variant that attaches comments and spacing to nodes, with ast<->dst conversion, cloning, rewriting and import management).

Your own scratch git worktree of the library is at @WT@ (a detached checkout; work ONLY inside that directory; do not read or touch /repo or /verif or any other directory except Go's module cache). The sandbox has no network. Every go command needs this environment:
  export GOFLAGS=-mod=mod GOPROXY=off GOSUMDB=off GOTOOLCHAIN=local

The property under study:

@PROP@

TASK. Make a *realistic* change to the library's source in your worktree that BREAKS this property, while
  (1) the library still compiles (go build ./...),
  (2) the existing test suite still passes: on the unmodified tree 109 tests pass in this sandbox (some test packages crash because of go/packages problems; that is expected and those do not count). Run `python3 @RD@/check_baseline.py <your worktree dir>`; it runs `go test ./...` there and must print "baseline: 109/109 stable tests pass". Do NOT use `git stash`, `git checkout` of other commits or any other git command that changes shared repository state (other people work in sibling worktrees of the same repository); `git diff` is fine. If you need the unmodified behaviour for comparison, copy your worktree to another directory under /tmp with `cp -r` BEFORE editing (and delete the copy at the end),
  (3) the break needs something SPECIFIC to manifest - a particular interleaving, a failure at a particular point, a multi-step sequence of operations, an unusual input shape, or two cooperating code sites that each look fine alone - and is NOT something ordinary use would expose at once (a change that breaks every round trip is useless). Think of the kind of subtle regression a maintainer could introduce in a refactoring or an "optimisation".
Do not edit *_test.go files of the library, and do not merely weaken or delete documentation.

DELIVERABLES, all inside @WT@/seed/ (create the directory):
  - patch.diff : `git diff` of your change to the library sources (exclude the seed/ directory),
  - a demonstration: either seed/demo_test.go (package main or an external test package importing github.com/dave/dst/...; it will be run from a temporary module with `replace github.com/dave/dst => <tree>`) or a small main program seed/demo/main.go, which FAILS (non-zero exit / test failure) on the changed tree and PASSES on the unmodified tree. Verify both yourself. Say in the README exactly how you ran it.
  - README.md : what you changed and why it is plausible, which property clause it violates, what exactly is needed for the violation to manifest, and the commands you ran (build, tests before/after, demo before/after) with their results.
Leave the worktree with your change applied. Keep your final answer short: summarise the change, the trigger, and confirm the three verifications.
'''
for i in range(1, 21):
    pid = 'C%02d' % i
    p = props[pid]
    wt = '%s/%s' % (rd, pid)
    if not os.path.isdir(wt):
        subprocess.check_call(['git', '-C', '/repo', 'worktree', 'add', '-q', '--detach', wt, 'main'])
    prop = "%s — %s\n\nStatement: %s\n\nQuantified over: %s\n" % (pid, p['title'], p['statement'], p['quantifier']['text'])
    if earlier:
        prop += "\nNOTE: %d changes were already proposed for this property; yours must differ from all of them in mechanism, in the code it touches and in the trigger (and avoid their obvious cousins). Prefer a clause of the statement, an entry point, an option, a node type or a usage sequence that these do not involve:\n" % len(earlier)
        for n, s in enumerate(earlier):
            m = json.load(open('/verif/seeded/%s-%s/meta.json' % (pid, s)))
            prop += "  %d. %s (trigger: %s)\n" % (n + 1, m['breaks'], m['needs_to_manifest'])
    open('%s/%s.prompt.txt' % (rd, pid), 'w').write(tpl.replace('@WT@', wt).replace('@RD@', rd).replace('@PROP@', prop))
print('ok')
