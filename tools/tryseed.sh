#!/bin/bash
# usage: tools/tryseed.sh <patch.diff> [ID ...]   (default: all checks, quick tier)
# Applies a seeded change to a scratch worktree of /repo (never to /repo itself), runs the given checks against
# it (VERIF_REPO), and removes the worktree afterwards.
# Prints one line per check: DETECTED (exit 1 with VIOLATION), MISSED (exit 0), ENGINE-ERROR (exit 2).
set -u
PATCH="$(readlink -f "$1")"; shift
IDS="$*"
[ -z "$IDS" ] && IDS="$(python3 -c "import json;print(' '.join(c['property_id'] for c in json.load(open('/verif/MANIFEST.json'))['checks']))")"
W="$(mktemp -d /tmp/tryseed.XXXXXX)"
restore() { git -C /repo worktree remove --force "$W/repo" 2>/dev/null; rm -rf "$W"; }
trap restore EXIT
# BASE=<commit>: the seed was written against an older tree (before a later fix: commit touched the same lines)
git -C /repo worktree add -q --detach "$W/repo" "${BASE:-HEAD}" || exit 2
git -C "$W/repo" apply "$PATCH" || { echo "tryseed: patch does not apply" >&2; exit 2; }
TIER="${TIER:-quick}"
for id in $IDS; do
  out="$(cd /verif && VERIF_REPO="$W/repo" ./run.sh "$id" "$TIER" 2>&1)"; rc=$?
  nv=$(printf '%s\n' "$out" | grep -c '^VIOLATION')
  case $rc in
    0) if printf '%s\n' "$out" | grep -q 'exhaustive=false'; then echo "$id MISSED (but the run was cut by its budget: exhaustive=false)"; else echo "$id MISSED"; fi ;;
    1) echo "$id DETECTED ($nv violation lines): $(printf '%s\n' "$out" | grep '^--- ' | head -3 | tr '\n' ' ')" ;;
    *) echo "$id ENGINE-ERROR: $(printf '%s\n' "$out" | grep -i 'engine error' | head -2 | tr '\n' ' ')" ;;
  esac
done
